"""known_findings.json loader and structured (mechanism-keyed) classifier.

An entry: {property, key, status: open|fixed, what, selector: {field: value|[values]}, commit?, witness}
A violation matches an entry iff every selector field is present in the
violation's `mech` dict with an equal value (or one of the listed values).
Only `open` entries suppress; `fixed` entries suppress nothing.
The file is never written at run time.
"""

import json
import os

ROOT = os.environ.get("GSVERIF_ROOT") or os.path.dirname(os.path.dirname(os.path.abspath(__file__)))


def load():
    path = os.path.join(ROOT, "known_findings.json")
    if not os.path.exists(path):
        return []
    return json.load(open(path))["findings"]


def _match(selector, mech):
    for k, want in selector.items():
        if k not in mech:
            return False
        have = mech[k]
        if isinstance(want, list):
            if have not in want:
                return False
        elif have != want:
            return False
    return True


def classify(prop, violations):
    entries = [e for e in load() if e["property"] == prop and e["status"] == "open"]
    known, unknown = {}, []
    for v in violations:
        for e in entries:
            if _match(e["selector"], v["mech"]):
                known.setdefault(e["key"], (e, []))[1].append(v)
                break
        else:
            unknown.append(v)
    return known, unknown
