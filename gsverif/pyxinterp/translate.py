"""M-PYX: a line-based transliteration of the Cython subset used by the three kernel sources into plain Python,
plus an iteration-ownership monitor for `prange` loops.

Only a strict whitelist of constructs is understood; anything else raises `Untranslatable` (the caller turns that into
an INCONCLUSIVE verdict, never into a violation).  The translated module computes with Python floats / numpy scalars and
`math` functions in the source's own operation order, so on a platform without FMA contraction its results are
bit-identical to the compiled artefact.
"""

import math
import re

import numpy as np


class Untranslatable(Exception):
    pass


# ---------------------------------------------------------------------------------------------------------------------
# iteration ownership monitor
# ---------------------------------------------------------------------------------------------------------------------


class Monitor:
    def __init__(self):
        self.stack = []  # active prange loops: dict(cur=index, reads={cell: set(iter)}, writes={cell: set(iter)})
        self.loops = 0
        self.iterations = 0
        self.conflicts = []
        self.enabled = True

    def begin(self, label):
        self.stack.append({"label": label, "cur": None, "reads": {}, "writes": {}})
        self.loops += 1

    def step(self, idx):
        self.stack[-1]["cur"] = idx
        self.iterations += 1

    def end(self):
        fr = self.stack.pop()
        for cell, writers in fr["writes"].items():
            readers = fr["reads"].get(cell, set())
            others = (writers | readers)
            if len(writers) > 1 or (others - writers) or (len(writers) == 1 and len(others) > 1):
                its = sorted(others)[:6]
                self.conflicts.append({"loop": fr["label"], "array": cell[0], "index": cell[1], "iterations": its})
                if len(self.conflicts) > 50:
                    break

    def access(self, name, key, write):
        if not self.stack or not self.enabled:
            return
        fr = self.stack[-1]
        if fr["cur"] is None:
            return
        cell = (name, key)
        (fr["writes"] if write else fr["reads"]).setdefault(cell, set()).add(fr["cur"])


MON = Monitor()


class Rec:
    """Recording proxy around a numpy array (element access with integer indices is recorded)."""

    __slots__ = ("a", "name")

    def __init__(self, a, name):
        self.a = a
        self.name = name

    @property
    def shape(self):
        return self.a.shape

    def __len__(self):
        return len(self.a)

    def _key(self, key):
        if isinstance(key, tuple):
            return tuple(int(k) if not isinstance(k, slice) else ("s", k.start, k.stop) for k in key)
        if isinstance(key, slice):
            return (("s", key.start, key.stop),)
        return (int(key),)

    def __getitem__(self, key):
        out = self.a[key]
        if isinstance(out, np.ndarray):
            return Rec(out, self.name + "[view]") if out.ndim else out[()]
        MON.access(self.name, self._key(key), False)
        return out

    def __setitem__(self, key, value):
        MON.access(self.name, self._key(key), True)
        self.a[key] = value

    def __array__(self, dtype=None, copy=None):
        return np.asarray(self.a, dtype=dtype)


def _prange(label, *args):
    MON.begin(label)
    try:
        for i in range(*[int(a) for a in args]):
            MON.step(i)
            yield i
    finally:
        MON.end()


# ---------------------------------------------------------------------------------------------------------------------
# transliteration
# ---------------------------------------------------------------------------------------------------------------------

C_TYPES = r"(?:const\s+)?(?:unsigned\s+)?(?:double|int|bint|long|float|uint8|str|np\.int64_t|_dist_func|_estimator_func|_normalization_func_vec|_normalization_func|void)"
MEMVIEW = r"(?:\[[:,\s]*\])?"


def _strip_params(params):
    out = []
    depth = 0
    cur = ""
    for ch in params:
        if ch in "([":
            depth += 1
        if ch in ")]":
            depth -= 1
        if ch == "," and depth == 0:
            out.append(cur)
            cur = ""
        else:
            cur += ch
    if cur.strip():
        out.append(cur)
    res = []
    for p in out:
        p = p.strip()
        if not p:
            continue
        p = re.sub(r"#.*$", "", p).strip()
        m = re.match(rf"^{C_TYPES}\s*{MEMVIEW}\s+(\w+)(\s*=\s*.+)?$", p)
        if m:
            res.append(m.group(1) + (m.group(2) or ""))
        elif re.match(r"^\w+(\s*=\s*.+)?$", p):
            res.append(p)
        else:
            raise Untranslatable(f"parameter: {p!r}")
    return ", ".join(res)


def translate(src, name="kernel"):
    lines = src.split("\n")
    out = ["import math", "import numpy as np", "from math import cos, sin, acos, atan2, sqrt, pow, fabs, isnan", "M_PI = math.pi",
           "OPENMP = False", "from gsverif.pyxinterp.translate import _prange, Rec, MON", ""]
    i = 0
    prange_id = 0
    wrapped_arrays = set()
    while i < len(lines):
        raw = lines[i]
        line = raw.rstrip()
        stripped = line.strip()
        indent = line[: len(line) - len(line.lstrip())]
        i += 1
        if not stripped or stripped.startswith("#"):
            out.append(line)
            continue
        if stripped.startswith('"""') or stripped.startswith("'''"):
            q = stripped[:3]
            out.append(line)
            if stripped.count(q) == 1:
                while i < len(lines) and q not in lines[i]:
                    out.append(lines[i])
                    i += 1
                out.append(lines[i])
                i += 1
            continue
        # multi-line statements: join until parentheses balance
        while (stripped.count("(") + stripped.count("[")) > (stripped.count(")") + stripped.count("]")) and i < len(lines):
            nxt = re.sub(r"#.*$", "", lines[i]).strip()
            stripped = re.sub(r"#.*$", "", stripped).rstrip() + " " + nxt
            i += 1
        s = stripped
        if s.startswith("cdef ") and "#" in s and "'" not in s and '"' not in s:
            s = s.split("#", 1)[0].rstrip()
        if re.match(r"^(import numpy as np|from cython\.parallel import .*|cimport numpy as np)$", s):
            continue
        if s == "cimport openmp":
            out.append(indent + "pass")
            continue
        if re.match(r"^from libc\.math cimport .*$", s):
            continue
        if s.startswith("ctypedef"):
            continue
        # function definitions
        m = re.match(r"^def\s+(\w+)\((.*)\):$", s)
        if m:
            out.append(f"{indent}def {m.group(1)}({_strip_params(m.group(2))}):")
            continue
        m = re.match(rf"^cdef\s+(?:inline\s+)?(?:\(?{C_TYPES}\)?)\s+(\w+)\((.*)\)\s*(?:nogil)?\s*:$", s)
        if m:
            out.append(f"{indent}def {m.group(1)}({_strip_params(m.group(2))}):")
            continue
        # cdef declarations
        m = re.match(rf"^cdef\s+{C_TYPES}\s*{MEMVIEW}\s+(.+)$", s)
        if m:
            rest = m.group(1)
            if "=" in rest:
                var, val = rest.split("=", 1)
                var, val = var.strip(), val.strip()
                if not re.match(r"^\w+$", var):
                    raise Untranslatable(f"declaration: {s!r}")
                if re.search(r"\[[:,\s]*\]", s.split("=")[0]) and val.startswith("np."):
                    out.append(f"{indent}{var} = Rec({val}, {var!r})")
                    wrapped_arrays.add(var)
                else:
                    out.append(f"{indent}{var} = {val}")
            else:
                if not re.match(r"^\w+(\s*,\s*\w+)*$", rest.strip()):
                    raise Untranslatable(f"declaration: {s!r}")
                # plain declaration: nothing to do (Python binds on first assignment)
                out.append(f"{indent}pass")
            continue
        # parallel constructs
        m = re.match(r"^for\s+(\w+)\s+in\s+prange\((.*)\):$", s)
        if m:
            args = [a.strip() for a in m.group(2).split(",") if "=" not in a]
            prange_id += 1
            out.append(f"{indent}for {m.group(1)} in _prange({name + ':' + str(prange_id)!r}, {', '.join(args)}):")
            continue
        if re.match(r"^with\s+nogil\s*,\s*parallel\(.*\):$", s):
            out.append(f"{indent}if True:")
            continue
        if s.startswith("raise ValueError("):
            out.append(f"{indent}raise ValueError('kernel argument check failed')")
            continue
        if s.startswith("cdef ") or s.startswith("cimport ") or "nogil" in s:
            raise Untranslatable(f"statement: {s!r}")
        out.append(indent + s)
    code = "\n".join(out)
    # returned memoryviews are converted with np.asarray(...) in the sources: unwrap recording proxies there
    try:
        compile(code, name, "exec")
    except SyntaxError as exc:
        raise Untranslatable(f"result does not compile: {exc}") from exc
    return code


def load(pyx_path, name):
    src = open(pyx_path).read()
    code = translate(src, name)
    ns = {"__name__": "mpyx_" + name}
    exec(compile(code, pyx_path, "exec"), ns)
    return ns, code


def wrap_inputs(func, names):
    """Call a translated kernel with its array arguments wrapped in recording proxies."""

    def call(*args, **kw):
        a2 = [Rec(np.asarray(a), names[i]) if isinstance(a, np.ndarray) and i < len(names) else a for i, a in enumerate(args)]
        res = func(*a2, **kw)
        if isinstance(res, tuple):
            return tuple(np.asarray(r) for r in res)
        return np.asarray(res)

    return call
