"""Tier/seed handling, shard executor, verdict and evidence writer.

python -m gsverif.run <Cxx> [quick|thorough]
python -m gsverif.run --replay <path>
python -m gsverif.run --setup
python -m gsverif.run --worker <Cxx> <tier> <seed> <shard> <nshards> <outfile>
"""

import hashlib
import importlib
import json
import os
import subprocess
import sys
import time
import traceback

ROOT = os.environ.get("GSVERIF_ROOT") or os.path.dirname(
    os.path.dirname(os.path.abspath(__file__))
)
PROPS = [f"C{i:02d}" for i in range(1, 21)]
MAX_VIOLATIONS_KEPT = 200
MAX_SAMPLES = 6


if __name__ == "__main__":  # checks import gsverif.run: make that the module that is executing them (one Inconclusive class)
    sys.modules.setdefault("gsverif.run", sys.modules["__main__"])


class Inconclusive(Exception):
    """Raised by a check when its monitor cannot decide (never a violation)."""


def _jsonable(obj):
    import numpy as np

    if isinstance(obj, dict):
        return {str(k): _jsonable(v) for k, v in obj.items()}
    if isinstance(obj, (list, tuple)):
        return [_jsonable(v) for v in obj]
    if isinstance(obj, np.ndarray):
        return _jsonable(obj.tolist())
    if isinstance(obj, (np.integer,)):
        return int(obj)
    if isinstance(obj, (np.floating,)):
        return float(obj)
    if isinstance(obj, (np.bool_,)):
        return bool(obj)
    if isinstance(obj, float):
        if obj != obj:
            return "nan"
        if obj in (float("inf"), float("-inf")):
            return "inf" if obj > 0 else "-inf"
        return obj
    if isinstance(obj, (int, str, bool)) or obj is None:
        return obj
    return repr(obj)


def fingerprint(check, case):
    blob = json.dumps([check, _jsonable(case)], sort_keys=True)
    return hashlib.sha1(blob.encode()).hexdigest()[:16]


class Ctx:
    """Per-shard recording context handed to every check function."""

    def __init__(self, prop, tier, seed, shard=0, nshards=1):
        self.prop, self.tier, self.seed = prop, tier, int(seed)
        self.shard, self.nshards = shard, nshards
        self.cases = 0
        self.fps = {}
        self.violations = []
        self.n_violations = 0
        self.events = {}
        self.cells = {}
        self.discards = {}
        self.samples = []
        self.resolution = {}
        self.extras = {}
        self._cur = None
        self._cur_trivial = False

    # -- helpers for checks -------------------------------------------------
    def rng(self, *key):
        import numpy as np

        ints = [self.seed, int(self.prop[1:])]
        for k in key:
            if isinstance(k, str):
                k = int(hashlib.sha1(k.encode()).hexdigest()[:8], 16)
            ints.append(int(k) & 0xFFFFFFFF)
        return np.random.default_rng(np.random.SeedSequence(ints))

    def event(self, name, n=1):
        self.events[name] = self.events.get(name, 0) + int(n)

    def cell(self, name, n=1):
        self.cells[name] = self.cells.get(name, 0) + int(n)

    def discard(self, reason):
        self.discards[reason] = self.discards.get(reason, 0) + 1
        self._cur_trivial = True

    def trivial(self):
        self._cur_trivial = True

    def resolve(self, key, value):
        """Record the worst (largest) observed residual / smallest detectable deviation."""
        value = float(value)
        if value == value and value > self.resolution.get(key, -1.0):
            self.resolution[key] = value

    def extra(self, key, value):
        self.extras[key] = _jsonable(value)

    def fail(self, mech, msg, **detail):
        """Record a violation of the property for the current case."""
        self.n_violations += 1
        mech = dict(mech)
        mech.setdefault("check", self._cur[0] if self._cur else "?")
        if len(self.violations) < MAX_VIOLATIONS_KEPT:
            self.violations.append(
                {
                    "property": self.prop,
                    "check": self._cur[0] if self._cur else "?",
                    "case": _jsonable(self._cur[1]) if self._cur else None,
                    "mech": _jsonable(mech),
                    "msg": str(msg)[:2000],
                    "detail": _jsonable(detail),
                    "tier": self.tier,
                    "seed": self.seed,
                }
            )

    # -- execution ----------------------------------------------------------
    def execute(self, mod, check, case):
        self._cur = (check, case)
        self._cur_trivial = False
        self.cases += 1
        nviol0 = self.n_violations
        try:
            mod.CHECKS[check](self, case)
        except Inconclusive as exc:
            self.discard(f"inconclusive:{check}:{str(exc)[:80]}")
        except Exception as exc:  # crash on an input the generator regards as valid
            tb = traceback.format_exc()
            self.fail(
                {"kind": "exception", "exc": type(exc).__name__},
                f"unexpected {type(exc).__name__}: {exc}",
                traceback=tb[-3000:],
            )
        if not self._cur_trivial:
            fp = fingerprint(check, case)
            self.fps[fp] = self.fps.get(fp, 0) + 1
            if len(self.samples) < MAX_SAMPLES and (
                self.cases % 7 == 1 or self.n_violations > nviol0
            ):
                self.samples.append({"check": check, "case": _jsonable(case)})
        self._cur = None

    def dump(self):
        return {
            "cases": self.cases,
            "fps": self.fps,
            "violations": self.violations,
            "n_violations": self.n_violations,
            "events": self.events,
            "cells": self.cells,
            "discards": self.discards,
            "samples": self.samples,
            "resolution": self.resolution,
            "extras": self.extras,
        }


def load_prop(prop):
    return importlib.import_module(f"gsverif.props.{prop.lower()}")


def worker(prop, tier, seed, shard, nshards, outfile):
    import faulthandler

    faulthandler.enable()
    from gsverif import common  # noqa: F401  (bootstraps gstools import path)

    mod = load_prop(prop)
    ctx = Ctx(prop, tier, seed, shard, nshards)
    t0 = time.time()
    cases = list(mod.generate(tier, int(seed)))
    budget = getattr(mod, "TIMEOUT", {}).get(tier, 3600) * 0.9
    skipped = 0
    for idx, (check, case) in enumerate(cases):
        if idx % nshards != shard:
            continue
        if time.time() - t0 > budget:
            skipped += 1
            continue
        ctx.execute(mod, check, case)
    out = ctx.dump()
    out["generated"] = len(cases)
    out["skipped_for_time"] = skipped
    out["wall_s"] = time.time() - t0
    with open(outfile, "w") as fh:
        json.dump(out, fh)
    return 0


def _merge(a, b):
    for k, v in b.items():
        a[k] = a.get(k, 0) + v


def run_property(prop, tier, seed):
    from gsverif import findings, evidence

    mod = load_prop(prop)
    nshards = getattr(mod, "SHARDS", {}).get(tier, 16)
    timeout = getattr(mod, "TIMEOUT", {}).get(tier, 3600)
    t0 = time.time()
    tmpdir = os.path.join(ROOT, ".build", "run", f"{prop}-{tier}-{seed}-{os.getpid()}")
    os.makedirs(tmpdir, exist_ok=True)
    procs = []
    for sh in range(nshards):
        out = os.path.join(tmpdir, f"shard{sh}.json")
        log = open(os.path.join(tmpdir, f"shard{sh}.log"), "w")
        cmd = [sys.executable, "-m", "gsverif.run", "--worker", prop, tier, str(seed), str(sh), str(nshards), out]
        procs.append((sh, out, log, subprocess.Popen(cmd, stdout=log, stderr=subprocess.STDOUT, cwd=ROOT)))
    inconclusive = []
    merged = {
        "cases": 0, "fps": {}, "violations": [], "n_violations": 0, "events": {}, "cells": {},
        "discards": {}, "samples": [], "resolution": {}, "extras": {}, "generated": 0, "skipped": 0,
    }
    deadline = t0 + timeout
    for sh, out, log, pr in procs:
        try:
            rc = pr.wait(timeout=max(1.0, deadline - time.time()))
        except subprocess.TimeoutExpired:
            pr.kill()
            pr.wait()
            inconclusive.append(f"shard{sh}:watchdog-timeout")
            continue
        finally:
            log.close()
        if rc != 0 or not os.path.exists(out):
            tail = ""
            try:
                tail = open(os.path.join(tmpdir, f"shard{sh}.log")).read()[-1500:]
            except OSError:
                pass
            inconclusive.append(f"shard{sh}:died rc={rc} {tail!r}")
            continue
        res = json.load(open(out))
        merged["cases"] += res["cases"]
        merged["n_violations"] += res["n_violations"]
        merged["generated"] = max(merged["generated"], res["generated"])
        merged["skipped"] += res["skipped_for_time"]
        _merge(merged["fps"], res["fps"])
        _merge(merged["events"], res["events"])
        _merge(merged["cells"], res["cells"])
        _merge(merged["discards"], res["discards"])
        merged["violations"].extend(res["violations"])
        for s in res["samples"]:
            if len(merged["samples"]) < MAX_SAMPLES:
                merged["samples"].append(s)
        for k, v in res["resolution"].items():
            merged["resolution"][k] = max(v, merged["resolution"].get(k, -1.0))
        merged["extras"].update(res["extras"])
    wall = time.time() - t0

    # ---- verdict -----------------------------------------------------------
    if merged["skipped"]:
        inconclusive.append(f"{merged['skipped']} cases skipped by the time budget")
    if merged["cases"] == 0:
        inconclusive.append("no case executed")
    for ev in getattr(mod, "REQUIRED_EVENTS", []):
        if merged["events"].get(ev, 0) == 0:
            inconclusive.append(f"deciding monitor never reached: event {ev}=0")
    ndisc = sum(v for k, v in merged["discards"].items())
    max_frac = getattr(mod, "MAX_DISCARD_FRAC", 0.2)
    if merged["cases"] and ndisc > max_frac * merged["cases"]:
        inconclusive.append(f"{ndisc}/{merged['cases']} cases discarded (> {max_frac:.0%})")
    if len(merged["fps"]) < 2:
        inconclusive.append("fewer than 2 distinct non-trivial cases")

    known, unknown = findings.classify(prop, merged["violations"])
    lines = []
    for key, (entry, viols) in sorted(known.items()):
        lines.append(f"KNOWN-FINDING: property={prop} {key}: {entry['what']} (observed {len(viols)}x)")
    replay_paths = []
    seen_mech = set()
    for v in unknown:
        mk = json.dumps(v["mech"], sort_keys=True)
        if mk in seen_mech and len(replay_paths) >= 1:
            continue
        seen_mech.add(mk)
        if len(replay_paths) >= 25:
            break
        fp = fingerprint(v["check"], v["case"])
        rdir = os.path.join(ROOT, "replay", prop)
        os.makedirs(rdir, exist_ok=True)
        path = os.path.join(rdir, f"{fp}.json")
        with open(path, "w") as fh:
            json.dump(v, fh, indent=1)
        replay_paths.append(path)
        lines.append(f"VIOLATION property={prop} replay={path}")
        lines.append(f"  mech={mk} :: {v['msg'][:300]}")

    ev_path = evidence.write(
        prop, tier, seed, mod, merged, wall,
        known={k: len(v[1]) for k, v in known.items()},
        n_unknown=len(unknown), inconclusive=inconclusive,
    )
    for ln in lines:
        print(ln)
    nk = sum(len(v[1]) for v in known.values())
    summary = (
        f"{prop} {tier} seed={seed}: cases={merged['cases']} distinct={len(merged['fps'])} "
        f"violations={len(unknown)} known={nk} discards={ndisc} wall={wall:.1f}s evidence={ev_path}"
    )
    shutil_rm(tmpdir, keep=bool(inconclusive))
    if unknown:
        print(summary)
        return 1
    if inconclusive:
        print(f"INCONCLUSIVE property={prop} reason={'; '.join(inconclusive)[:1500]}")
        print(summary)
        return 2
    print("OK " + summary)
    return 0


def shutil_rm(path, keep=False):
    import shutil

    if keep:
        return
    shutil.rmtree(path, ignore_errors=True)


def replay(path):
    from gsverif import common, findings  # noqa: F401

    v = json.load(open(path))
    prop = v["property"]
    mod = load_prop(prop)
    ctx = Ctx(prop, v.get("tier", "quick"), v.get("seed", 0))
    ctx.execute(mod, v["check"], v["case"])
    known, unknown = findings.classify(prop, ctx.violations)
    for key, (entry, viols) in known.items():
        print(f"KNOWN-FINDING: property={prop} {key}: {entry['what']}")
    for u in unknown:
        print(f"VIOLATION property={prop} replay={path}")
        print(f"  mech={json.dumps(u['mech'], sort_keys=True)} :: {u['msg'][:1000]}")
    if unknown:
        return 1
    print(f"replay of {path}: no violation reproduced")
    return 0


def setup():
    from gsverif.native import build

    t0 = time.time()
    rc = build.prebuild_all(verbose=True)
    print(f"setup done in {time.time()-t0:.1f}s rc={rc}")
    return rc


def main(argv):
    if not argv:
        print(__doc__)
        return 2
    if argv[0] == "--worker":
        prop, tier, seed, shard, nshards, out = argv[1:7]
        return worker(prop, tier, int(seed), int(shard), int(nshards), out)
    if argv[0] == "--replay":
        return replay(argv[1])
    if argv[0] == "--setup":
        return setup()
    prop = argv[0].upper()
    if prop not in PROPS:
        print(f"unknown property {prop}")
        return 2
    tier = argv[1] if len(argv) > 1 else os.environ.get("VERIF_TIER", "quick")
    if tier not in ("quick", "thorough"):
        tier = "quick"
    seed = int(os.environ.get("VERIF_SEED", "0") or 0)
    return run_property(prop, tier, seed)


if __name__ == "__main__":
    sys.exit(main(sys.argv[1:]))
