"""O-ROT: independent construction of the documented coordinate transforms.

Nothing here imports gstools.  2-D: counter-clockwise rotation about z.
3-D: yaw (about z), pitch (about y), roll (about x) composed as Rx(roll)·Ry(pitch)·Rz(yaw)
(the Tait-Bryan sequence the package documents).  d-D: Givens rotations in the
planes (0,1),(0,2),(1,2),(0,3),... with alternating signs, applied in that order.
"""

import math

import numpy as np


def planes(dim):
    out = []
    for j in range(1, dim):
        for i in range(j):
            out.append((i, j))
    return out


def pad_angles(dim, angles):
    n = dim * (dim - 1) // 2
    a = [float(x) for x in np.atleast_1d(np.asarray(angles, dtype=float))][:n]
    return a + [0.0] * (n - len(a))


def pad_anis(dim, anis):
    a = [float(x) for x in np.atleast_1d(np.asarray(anis, dtype=float))][: max(dim - 1, 0)]
    return [1.0] * (dim - 1 - len(a)) + a


def rot(dim, angles):
    """Matrix M whose columns are the rotated main axes (M e_i = i-th main axis)."""
    ang = pad_angles(dim, angles)
    if dim == 1:
        return np.eye(1)
    if dim == 2:
        c, s = math.cos(ang[0]), math.sin(ang[0])
        return np.array([[c, -s], [s, c]])
    if dim == 3:
        c, s = math.cos(ang[0]), math.sin(ang[0])
        rz = np.array([[c, -s, 0.0], [s, c, 0.0], [0.0, 0.0, 1.0]])
        c, s = math.cos(ang[1]), math.sin(ang[1])
        ry = np.array([[c, 0.0, s], [0.0, 1.0, 0.0], [-s, 0.0, c]])
        c, s = math.cos(ang[2]), math.sin(ang[2])
        rx = np.array([[1.0, 0.0, 0.0], [0.0, c, -s], [0.0, s, c]])
        return rx @ ry @ rz
    m = np.eye(dim)
    for idx, ((p, q), a) in enumerate(zip(planes(dim), ang)):
        a = a if idx % 2 == 0 else -a
        g = np.eye(dim)
        g[p, p] = math.cos(a)
        g[q, q] = math.cos(a)
        g[p, q] = -math.sin(a)
        g[q, p] = math.sin(a)
        m = g @ m
    return m


def iso_matrix(dim, angles, anis):
    """x_iso = diag(1, 1/e_1, ...) · M^T · x"""
    scale = np.diag([1.0] + [1.0 / e for e in pad_anis(dim, anis)])
    return scale @ rot(dim, angles).T


def aniso_matrix(dim, angles, anis):
    scale = np.diag([1.0] + list(pad_anis(dim, anis)))
    return rot(dim, angles) @ scale


def isometrize(dim, angles, anis, pos):
    pos = np.asarray(pos, dtype=float).reshape(dim, -1)
    return iso_matrix(dim, angles, anis) @ pos


def latlon_to_xyz(lat_deg, lon_deg, radius=1.0):
    lat = np.asarray(lat_deg, dtype=float)
    lon = np.asarray(lon_deg, dtype=float)
    out = np.empty((3,) + np.broadcast(lat, lon).shape)
    la = np.radians(lat)
    lo = np.radians(lon)
    out[0] = radius * np.cos(la) * np.cos(lo)
    out[1] = radius * np.cos(la) * np.sin(lo)
    out[2] = radius * np.sin(la)
    return out


def great_circle(lat1, lon1, lat2, lon2):
    """Central angle (radians) by atan2(|a x b|, a.b) – independent of haversine."""
    a = latlon_to_xyz(lat1, lon1)
    b = latlon_to_xyz(lat2, lon2)
    cr = np.cross(a, b, axis=0)
    return np.arctan2(np.sqrt(np.sum(cr * cr, axis=0)), np.sum(a * b, axis=0))


def haversine(lat1, lon1, lat2, lon2):
    p1, p2 = math.radians(lat1), math.radians(lat2)
    dp = p2 - p1
    dl = math.radians(lon2 - lon1)
    a = math.sin(dp / 2) ** 2 + math.cos(p1) * math.cos(p2) * math.sin(dl / 2) ** 2
    return 2.0 * math.atan2(math.sqrt(a), math.sqrt(1.0 - a))
