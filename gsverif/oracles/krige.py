"""O-KRIGE: kriging by direct solution of the kriging system (no gstools.krige code involved).

The system is assembled from pairwise distances of the O-ROT-isometrised positions and an isotropic
covariance callable (the model's `covariance`; C03 ties that function to the closed forms):

    [ C + diag(err)   1   F^T ] [ w  ]   [ c0 ]
    [ 1^T             0   0   ] [ mu ] = [ 1  ]
    [ F               0   0   ] [ nu ]   [ f0 ]

estimate = w . z,  variance = sill - rhs . (K^-1 rhs)  (clipped at 0 as documented)
"""

import numpy as np


def pairdist(a, b):
    a = np.asarray(a, dtype=float)
    b = np.asarray(b, dtype=float)
    d = a[:, :, None] - b[:, None, :]
    return np.sqrt(np.sum(d * d, axis=0))


def system(cov, iso_cond, sill, var0, *, unbiased, drift_cond=None, cond_err=0.0):
    n = iso_cond.shape[1]
    k = 0 if drift_cond is None else len(drift_cond)
    size = n + int(unbiased) + k
    mat = np.zeros((size, size))
    c = np.asarray(cov(pairdist(iso_cond, iso_cond)), dtype=float)
    np.fill_diagonal(c, var0)
    mat[:n, :n] = c
    mat[np.arange(n), np.arange(n)] += cond_err
    if unbiased:
        mat[n, :n] = 1.0
        mat[:n, n] = 1.0
    for i in range(k):
        mat[size - k + i, :n] = drift_cond[i]
        mat[:n, size - k + i] = drift_cond[i]
    return mat


def rhs(cov, iso_cond, iso_tgt, sill, var0, *, unbiased, drift_tgt=None, exact=False, only_mean=False, zero_tol=1e-8):
    n, m = iso_cond.shape[1], iso_tgt.shape[1]
    k = 0 if drift_tgt is None else len(drift_tgt)
    size = n + int(unbiased) + k
    out = np.zeros((size, m))
    if not only_mean:
        dist = pairdist(iso_cond, iso_tgt)
        c0 = np.asarray(cov(dist), dtype=float)
        if exact:
            # documented: the exact interpolator uses the sill at (numerically) zero distance
            c0 = np.where(np.abs(dist) <= zero_tol, sill, c0)
        out[:n] = c0
    if unbiased:
        out[n] = 1.0
    for i in range(k):
        out[size - k + i] = drift_tgt[i]
    return out


def solve(mat, b, z_padded, sill, pseudo=True):
    """Returns estimate, variance (clipped at 0), raw variance term, condition number."""
    cond = np.linalg.cond(mat)
    if pseudo:
        sol = np.linalg.pinv(mat, rcond=1e-15) @ b
    else:
        sol = np.linalg.solve(mat, b)
    est = z_padded @ sol
    err = np.sum(b * sol, axis=0)
    return est, np.maximum(sill - err, 0.0), sill - err, cond


def krige(cov, iso_cond, z, iso_tgt, sill, var0, *, unbiased, drift_cond=None, drift_tgt=None, cond_err=0.0, exact=False,
          only_mean=False, pseudo=True):
    mat = system(cov, iso_cond, sill, var0, unbiased=unbiased, drift_cond=drift_cond, cond_err=cond_err)
    b = rhs(cov, iso_cond, iso_tgt, sill, var0, unbiased=unbiased, drift_tgt=drift_tgt, exact=exact, only_mean=only_mean)
    zp = np.concatenate([np.asarray(z, dtype=float), np.zeros(mat.shape[0] - len(z))])
    return solve(mat, b, zp, sill, pseudo=pseudo)


def estimated_mean(cov, iso_cond, z, sill, var0, *, cond_err=0.0, pseudo=True):
    """Ordinary-kriging estimate of the constant mean: weights solve the system with rhs (0,...,0,1)."""
    mat = system(cov, iso_cond, sill, var0, unbiased=True, cond_err=cond_err)
    b = np.zeros((mat.shape[0], 1))
    b[-1] = 1.0
    zp = np.concatenate([np.asarray(z, dtype=float), [0.0]])
    sol = (np.linalg.pinv(mat, rcond=1e-15) if pseudo else np.linalg.inv(mat)) @ b
    return float(zp @ sol[:, 0])
