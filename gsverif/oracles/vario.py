"""O-VARIO: empirical variograms by enumeration of all point pairs (pure Python, `math` scalars).

The documented definition: a pair (j, k), j < k, belongs to bin i iff edges[i] <= dist < edges[i+1] (half-open);
for every field without NaN at either point it adds 1 to the count and (f_k - f_j)^2 (Matheron) or sqrt|f_k - f_j|
(Cressie) to the sum; Matheron: sum / (2 N), Cressie: 0.5 (sum/N)^4 / (0.457 + 0.494/N + 0.045/N^2); empty bins give 0.
Pairs are visited in lexicographic order so that floating-point sums are reproducible.
"""

import math


def dist_euclid(pos, j, k):
    s = 0.0
    for d in range(len(pos)):
        s += (pos[d][j] - pos[d][k]) * (pos[d][j] - pos[d][k])
    return math.sqrt(s)


def dist_haversine(pos, i, j):
    deg = math.pi / 180.0
    dlat = (pos[0][j] - pos[0][i]) * deg
    dlon = (pos[1][j] - pos[1][i]) * deg
    arg = math.pow(math.sin(dlat / 2.0), 2) + math.cos(pos[0][i] * deg) * math.cos(pos[0][j] * deg) * math.pow(math.sin(dlon / 2.0), 2)
    return 2.0 * math.atan2(math.sqrt(arg), math.sqrt(1.0 - arg))


def _est(kind, diff):
    return diff * diff if kind == "m" else math.sqrt(abs(diff))


def _normalise(kind, sums, counts):
    out = []
    for s, c in zip(sums, counts):
        cnt = max(c, 1)
        if kind == "m":
            out.append(s / (2.0 * cnt))
        else:
            out.append(0.5 * (1.0 / cnt * s) ** 4 / (0.457 + 0.494 / cnt + 0.045 / cnt**2))
    return out


def in_direction(pos, dist, direction, tol, bandwidth, k, j):
    dim = len(pos)
    s_prod = 0.0
    for d in range(dim):
        s_prod += (pos[d][k] - pos[d][j]) * direction[d]
    in_band = True
    if bandwidth > 0.0:
        b = 0.0
        for d in range(dim):
            tmp = (pos[d][k] - pos[d][j]) - s_prod * direction[d]
            b += tmp * tmp
        in_band = math.sqrt(b) < bandwidth
    in_angle = True
    if dist > 0.0:
        tmp = abs(s_prod) / dist
        if tmp < 1.0:
            in_angle = math.acos(tmp) < tol
    return in_band and in_angle


def unstructured(fields, edges, pos, kind="m", distance="e", directions=None, tol=math.pi / 8.0, bandwidth=-1.0, separate=False):
    """fields: list of lists (nf x n); pos: list of lists (dim x n); returns (values, counts) – per direction if directions given."""
    n = len(pos[0])
    nb = len(edges) - 1
    dist_f = dist_euclid if distance == "e" else dist_haversine
    nd = 1 if directions is None else len(directions)
    sums = [[0.0] * nb for _ in range(nd)]
    counts = [[0] * nb for _ in range(nd)]
    for j in range(n - 1):
        for k in range(j + 1, n):
            dist = dist_f(pos, j, k)
            for i in range(nb):
                if dist < edges[i] or dist >= edges[i + 1]:
                    continue
                for d in range(nd):
                    if directions is not None and not in_direction(pos, dist, directions[d], tol, bandwidth, k, j):
                        continue
                    for f in fields:
                        a, b = f[k], f[j]
                        if a != a or b != b:
                            continue
                        counts[d][i] += 1
                        sums[d][i] += _est(kind, a - b)
                    if directions is not None and separate:
                        break
    vals = [_normalise(kind, s, c) for s, c in zip(sums, counts)]
    if directions is None:
        return vals[0], counts[0]
    return vals, counts


def along_axis(field, mask=None, kind="m"):
    """field: list of rows (n_axis x m); lag k pairs (i, i+k) in every column; masked cells are skipped."""
    n = len(field)
    m = len(field[0]) if n else 0
    sums = [0.0] * n
    counts = [0] * n
    for i in range(n - 1):
        for j in range(m):
            for k in range(1, n - i):
                if mask is not None and (mask[i][j] or mask[i + k][j]):
                    continue
                counts[k] += 1
                sums[k] += _est(kind, field[i][j] - field[i + k][j])
    return _normalise(kind, sums, counts), counts
