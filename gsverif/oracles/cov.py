"""O-COV: second transcription of every documented correlation function in mpmath (30 digits).

`cor(name, opt, dim, h)` is the normalised correlation of the non-dimensional lag h = s*r/l.
`correlation(desc, r)` applies length scale, rescale and the TPL superposition (len_low).
Nothing here imports gstools.
"""

import math

import mpmath as mp

mp.mp.dps = 30

DEFAULT_RESCALE = {"Gaussian": math.sqrt(math.pi) / 2.0}
TPL_ALPHA = {"TPLGaussian": 2.0, "TPLExponential": 1.0}
DEFAULT_OPT = {
    "Stable": {"alpha": 1.5}, "Matern": {"nu": 1.0}, "Integral": {"nu": 1.0}, "Rational": {"alpha": 1.0},
    "TPLGaussian": {"hurst": 0.5, "len_low": 0.0}, "TPLExponential": {"hurst": 0.25, "len_low": 0.0},
    "TPLStable": {"hurst": 0.5, "alpha": 1.5, "len_low": 0.0},
}


def default_opt(name, dim):
    if name == "SuperSpherical":
        return {"nu": (dim - 1) / 2}
    if name == "JBessel":
        return {"nu": dim / 2}
    if name == "TPLSimple":
        return {"nu": (dim + 1) / 2}
    return dict(DEFAULT_OPT.get(name, {}))


def _tpl(x, hurst, alpha):
    """(2H/alpha) E_{1+2H/alpha}(x^alpha), -> 1 for x -> 0"""
    x = mp.mpf(x)
    if x == 0:
        return mp.mpf(1)
    s = 2 * mp.mpf(hurst) / mp.mpf(alpha)
    return s * mp.expint(1 + s, x ** mp.mpf(alpha))


def cor(name, opt, dim, h):
    h = mp.mpf(h)
    if h < 0:
        h = -h
    o = default_opt(name, dim)
    o.update(opt or {})
    if name == "Gaussian":
        return mp.exp(-h * h)
    if name == "Exponential":
        return mp.exp(-h)
    if name == "Stable":
        return mp.exp(-(h ** mp.mpf(o["alpha"]))) if h > 0 else mp.mpf(1)
    if name == "Matern":
        nu = mp.mpf(o["nu"])
        if nu > 20:
            return mp.exp(-((h / 2) ** 2))
        if h == 0:
            return mp.mpf(1)
        x = mp.sqrt(nu) * h
        return 2 ** (1 - nu) / mp.gamma(nu) * x**nu * mp.besselk(nu, x)
    if name == "Integral":
        nu = mp.mpf(o["nu"])
        if h == 0:
            return mp.mpf(1)
        return nu / 2 * mp.expint(1 + nu / 2, h * h)
    if name == "Rational":
        a = mp.mpf(o["alpha"])
        return (1 + h * h / a) ** (-a)
    if name == "Cubic":
        if h >= 1:
            return mp.mpf(0)
        return 1 - 7 * h**2 + mp.mpf(35) / 4 * h**3 - mp.mpf(7) / 2 * h**5 + mp.mpf(3) / 4 * h**7
    if name == "Linear":
        return max(1 - h, mp.mpf(0))
    if name == "Circular":
        if h >= 1:
            return mp.mpf(0)
        return 2 / mp.pi * (mp.acos(h) - h * mp.sqrt(1 - h * h))
    if name == "Spherical":
        if h >= 1:
            return mp.mpf(0)
        return 1 - mp.mpf(3) / 2 * h + h**3 / 2
    if name in ("HyperSpherical", "SuperSpherical"):
        nu = mp.mpf(dim - 1) / 2 if name == "HyperSpherical" else mp.mpf(o["nu"])
        if h >= 1:
            return mp.mpf(0)
        return 1 - h * mp.hyp2f1(0.5, -nu, 1.5, h * h) / mp.hyp2f1(0.5, -nu, 1.5, 1)
    if name == "JBessel":
        nu = mp.mpf(o["nu"])
        if h == 0:
            return mp.mpf(1)
        return mp.gamma(nu + 1) * mp.besselj(nu, h) / (h / 2) ** nu
    if name in ("TPLGaussian", "TPLExponential", "TPLStable"):
        alpha = TPL_ALPHA.get(name, o.get("alpha"))
        return _tpl(h, o["hurst"], alpha)
    if name == "TPLSimple":
        return max(1 - h, mp.mpf(0)) ** mp.mpf(o["nu"])
    raise KeyError(name)


def rescale_of(desc):
    r = desc.get("rescale")
    return float(r) if r is not None else DEFAULT_RESCALE.get(desc["name"], 1.0)


def correlation(desc, r):
    """Correlation at the dimensional lag r for a model description (see common.draw_model)."""
    name, dim = desc["name"], desc["dim"]
    opt = dict(default_opt(name, dim))
    opt.update(desc.get("opt", {}))
    s = mp.mpf(rescale_of(desc))
    ell = mp.mpf(desc.get("len_scale", 1.0))
    r = abs(mp.mpf(r))
    if name in ("TPLGaussian", "TPLExponential", "TPLStable") and opt.get("len_low", 0.0) > 0:
        alpha = TPL_ALPHA.get(name, opt.get("alpha"))
        hh = 2 * mp.mpf(opt["hurst"])
        lup = (mp.mpf(opt["len_low"]) + ell) / s
        llow = mp.mpf(opt["len_low"]) / s
        return (lup**hh * _tpl(r / lup, opt["hurst"], alpha) - llow**hh * _tpl(r / llow, opt["hurst"], alpha)) / (
            lup**hh - llow**hh
        )
    return cor(name, opt, dim, s * r / ell)


def tpl_var_factor(desc):
    opt = dict(default_opt(desc["name"], desc["dim"]))
    opt.update(desc.get("opt", {}))
    s = rescale_of(desc)
    hh = 2 * opt["hurst"]
    lup = (opt["len_low"] + desc.get("len_scale", 1.0)) / s
    llow = opt["len_low"] / s
    return (lup**hh - llow**hh) / hh


def support(desc):
    """Range beyond which a compact-support model vanishes (None if unbounded)."""
    if desc["name"] in ("Cubic", "Linear", "Circular", "Spherical", "HyperSpherical", "SuperSpherical", "TPLSimple"):
        return desc.get("len_scale", 1.0) / rescale_of(desc)
    return None


def integral_scale(desc):
    """int_0^inf rho(r) dr with the oracle correlation (oscillatory quadrature for JBessel)."""
    sup = support(desc)
    with mp.workdps(18):
        return _integral_scale(desc, sup)


def _integral_scale(desc, sup):
    f = lambda r: correlation(desc, r)
    ell = desc.get("len_scale", 1.0) / rescale_of(desc)
    if sup is not None:
        return mp.quad(f, [0, sup / 2, sup])
    if desc["name"] == "JBessel":
        return mp.quadosc(f, [0, mp.inf], omega=1 / ell)
    pts = [0, ell / 4, ell, 4 * ell, 16 * ell, 64 * ell, mp.inf]
    if desc["name"] in ("TPLGaussian", "TPLExponential", "TPLStable"):
        opt = desc.get("opt", {})
        low = opt.get("len_low", 0.0)
        if low > 0:
            pts = sorted(set([0, low / 4, low, 4 * low] + pts[1:-1])) + [mp.inf]
    return mp.quad(f, pts)


def evaluation_slack(desc):
    """Attainable absolute accuracy of the package's correlation for exponential-integral models next to an integer order s:
    E_s is evaluated through Gamma(1-s, x) whose recursion divides by (s - n) (accuracy eps/|s-n|); orders within 1e-8 of an
    integer are evaluated as that integer (accuracy ~ |s-n| <= 1e-8). Zero for every other model / order."""
    o = desc.get("opt", {}) or {}
    order = {"Integral": lambda: 1 + o.get("nu", 1.0) / 2, "TPLGaussian": lambda: 1 + o.get("hurst", 0.5),
             "TPLExponential": lambda: 1 + 2 * o.get("hurst", 0.5), "TPLStable": lambda: 1 + 2 * o.get("hurst", 0.5) / o.get("alpha", 1.5)}.get(desc["name"])
    if order is None:
        return 0.0
    dist = abs(order() - round(order()))
    if not 0 < dist < 1e-4:
        return 0.0
    return 50 * 2.3e-16 / max(dist, 1e-8) + (4e-8 if dist <= 1e-8 else 0.0)
