"""O-FT: spectra recomputed from the oracle correlation (never from the model's spectral code).

S_d(k) = (2 pi)^-d  int rho(|r|) exp(-i k.r) d^d r
  d=1: (1/pi)        int_0^inf rho(r) cos(kr) dr            (QUADPACK QAWF)
  d=2: (1/2pi)       int_0^inf r rho(r) J0(kr) dr           (mpmath.quadosc / finite range quad)
  d=3: (1/(2pi^2 k)) int_0^inf r rho(r) sin(kr) dr          (QUADPACK QAWF)
Weak form (no oscillatory quadrature), for every d and width a:
  int_0^inf radfac_d(r) rho(r) exp(-r^2/(2a^2)) dr = (2 pi a^2)^(d/2) int_0^inf radfac_d(k) S_d(k) exp(-a^2 k^2/2) dk
"""

import math

import mpmath as mp
import numpy as np
from scipy.integrate import quad

from gsverif.oracles import cov as ocov


def radfac(d, r):
    if d == 1:
        return 2.0
    if d == 2:
        return 2 * math.pi * r
    if d == 3:
        return 4 * math.pi * r * r
    return d * r ** (d - 1) * math.pi ** (d / 2) / math.gamma(d / 2 + 1)


_RHO = {}


def use_correlation(desc, func):
    """Register a fast float correlation for this description (e.g. the model's own `correlation`, which C03 ties to the
    mpmath closed forms); without it the mpmath closed form is used (slow for Bessel-type models)."""
    _RHO[id(desc)] = func


def rho_float(desc):
    unit = desc_unit(desc)
    fast = _RHO.get(id(desc))
    if fast is not None:
        return fast, unit

    def f(r):
        return float(ocov.correlation(desc, r))

    return f, unit


def desc_unit(desc):
    return desc.get("len_scale", 1.0) / ocov.rescale_of(desc)


def _cutoff(rho, unit, power):
    """Smallest of 8..4096 length units beyond which r^power * rho(r) is negligible (None for slowly decaying correlations)."""
    for fac in (8, 16, 32, 64, 128, 256, 512, 1024, 4096):
        u = fac * unit
        if abs(rho(u)) * fac**power < 1e-17 and abs(rho(0.7 * u)) * fac**power < 1e-15:
            return u
    return None


def density(desc, k):
    """Pointwise transform of the (registered) correlation at wave number k >= 0.
    Lengths are scaled by the unit length so that QUADPACK works on O(1) quantities."""
    from scipy.special import j0

    d = desc["dim"]
    rho, unit = rho_float(desc)
    sup = ocov.support(desc)
    kk = k * unit  # dimensionless wave number
    g = lambda x: rho(x * unit)  # correlation of the dimensionless lag
    upper = sup / unit if sup is not None else None
    if upper is None:
        cut = _cutoff(rho, unit, d - 1)
        upper = cut / unit if cut is not None else None
    def _plain(fun, hi):
        """Non-oscillatory integral over [0, hi]: decade break points (structure at every scale from len_low to the cut-off)."""
        if hi is None or not np.isfinite(hi):
            return quad(fun, 0, 1.0, limit=800, epsabs=1e-15, epsrel=1e-12)[0] + quad(fun, 1.0, np.inf, limit=800, epsabs=1e-15, epsrel=1e-12)[0]
        edges = [0.0] + [e for e in (1e-6, 1e-5, 1e-4, 1e-3, 1e-2, 0.1, 1.0, 10.0, 100.0, 1000.0) if e < hi] + [hi]
        return sum(quad(fun, a, b, limit=400, epsabs=1e-16, epsrel=1e-12)[0] for a, b in zip(edges[:-1], edges[1:]))

    if d == 1:
        if upper is not None:
            val = quad(g, 0, upper, weight="cos", wvar=kk, limit=800, epsabs=1e-15, epsrel=1e-12)[0] if kk > 0 else _plain(g, upper)
        else:
            val = quad(g, 0, np.inf, weight="cos", wvar=kk, limit=800, epsabs=1e-13)[0] if kk > 0 else _plain(g, None)
        return val / math.pi * unit
    if d == 3:
        if kk == 0:
            val = _plain(lambda x: x * x * g(x), upper)
            return val / (2 * math.pi**2) * unit**3
        if upper is not None:
            val = quad(lambda x: x * g(x), 0, upper, weight="sin", wvar=kk, limit=800, epsabs=1e-15, epsrel=1e-12)[0]
        else:
            val = quad(lambda x: x * g(x), 0, np.inf, weight="sin", wvar=kk, limit=800, epsabs=1e-13)[0]
        return val / (2 * math.pi**2 * kk) * unit**3
    if upper is None:
        raise ArithmeticError("correlation decays too slowly for a finite-range Hankel quadrature")
    npts = int(min(300, max(4, kk * upper / math.pi)))
    brk = [upper * (i + 1) / (npts + 1) for i in range(npts)]
    val = quad(lambda x: x * g(x) * float(j0(kk * x)), 0, upper, points=brk, limit=4000, epsabs=1e-15, epsrel=1e-11)[0]
    return val / (2 * math.pi) * unit**2


def weak_lhs(desc, a):
    d = desc["dim"]
    rho, unit = rho_float(desc)
    sup = ocov.support(desc)
    upper = min(sup, 12 * a) if sup is not None else 12 * a
    pts = sorted(set([p for p in (unit / 4, unit, 4 * unit, a, 3 * a) if 0 < p < upper]))
    return quad(lambda r: radfac(d, r) * rho(r) * math.exp(-r * r / (2 * a * a)), 0, upper, points=pts or None, limit=400, epsabs=1e-14, epsrel=1e-11)[0]


def weak_rhs(d, dens, a, unit):
    """dens: callable k -> spectral density (vectorised call on scalars is fine)."""
    upper = 12.0 / a
    pts = sorted(set([p for p in (0.25 / unit, 1.0 / unit, 4.0 / unit, 1.0 / a, 3.0 / a) if 0 < p < upper]))
    val = quad(lambda k: radfac(d, k) * float(dens(k)) * math.exp(-a * a * k * k / 2), 0, upper, points=pts or None, limit=400, epsabs=1e-14, epsrel=1e-11)[0]
    return (2 * math.pi * a * a) ** (d / 2) * val
