"""Independent transcription of the documented normalizer formulas (no gstools import).

Each entry: forward y(x), inverse x(y), derivative y'(x), valid x-range (open), valid y-range (open).
Parameters are plain floats; the special values (lmbda = 0, 2) are the analytic limits.
"""

import math

import numpy as np

INF = float("inf")


def _bc(x, lam):
    return np.log(x) if lam == 0 else np.expm1(lam * np.log(x)) / lam


def _bc_inv(y, lam):
    return np.exp(y) if lam == 0 else np.exp(np.log1p(lam * y) / lam)


def forward(name, p, x):
    x = np.asarray(x, dtype=float)
    lam = float(p.get("lmbda", 1.0))
    if name == "Normalizer":
        return x.copy()
    if name == "LogNormal":
        return np.log(x)
    if name == "BoxCox":
        return _bc(x, lam)
    if name == "BoxCoxShift":
        return _bc(x + float(p.get("shift", 0.0)), lam)
    if name == "YeoJohnson":
        out = np.empty_like(x)
        pos = x >= 0
        out[pos] = _bc(x[pos] + 1.0, lam)
        out[~pos] = -_bc(1.0 - x[~pos], 2.0 - lam)
        return out
    if name == "Modulus":
        return np.sign(x) * _bc(np.abs(x) + 1.0, lam)
    if name == "Manly":
        return x.copy() if lam == 0 else np.expm1(lam * x) / lam
    raise KeyError(name)


def inverse(name, p, y):
    y = np.asarray(y, dtype=float)
    lam = float(p.get("lmbda", 1.0))
    if name == "Normalizer":
        return y.copy()
    if name == "LogNormal":
        return np.exp(y)
    if name == "BoxCox":
        return _bc_inv(y, lam)
    if name == "BoxCoxShift":
        return _bc_inv(y, lam) - float(p.get("shift", 0.0))
    if name == "YeoJohnson":
        out = np.empty_like(y)
        pos = y >= 0
        out[pos] = _bc_inv(y[pos], lam) - 1.0
        out[~pos] = 1.0 - _bc_inv(-y[~pos], 2.0 - lam)
        return out
    if name == "Modulus":
        return np.sign(y) * (_bc_inv(np.abs(y), lam) - 1.0)
    if name == "Manly":
        return y.copy() if lam == 0 else np.log1p(lam * y) / lam
    raise KeyError(name)


def derivative(name, p, x):
    x = np.asarray(x, dtype=float)
    lam = float(p.get("lmbda", 1.0))
    if name == "Normalizer":
        return np.ones_like(x)
    if name == "LogNormal":
        return 1.0 / x
    if name == "BoxCox":
        return np.exp((lam - 1.0) * np.log(x))
    if name == "BoxCoxShift":
        return np.exp((lam - 1.0) * np.log(x + float(p.get("shift", 0.0))))
    if name == "YeoJohnson":
        out = np.empty_like(x)
        pos = x >= 0
        out[pos] = np.exp((lam - 1.0) * np.log1p(x[pos]))
        out[~pos] = np.exp((1.0 - lam) * np.log1p(-x[~pos]))
        return out
    if name == "Modulus":
        return np.exp((lam - 1.0) * np.log1p(np.abs(x)))
    if name == "Manly":
        return np.exp(lam * x)
    raise KeyError(name)


def x_range(name, p):
    if name in ("LogNormal", "BoxCox"):
        return (0.0, INF)
    if name == "BoxCoxShift":
        return (-float(p.get("shift", 0.0)), INF)
    return (-INF, INF)


def y_range(name, p):
    lam = float(p.get("lmbda", 1.0))
    if name in ("BoxCox", "BoxCoxShift", "Manly"):
        if lam == 0:
            return (-INF, INF)
        return (-INF, -1.0 / lam) if lam < 0 else (-1.0 / lam, INF)
    if name == "YeoJohnson":
        # x>=0 branch bounded above for lam<0; x<0 branch bounded below for lam>2
        lo = -1.0 / (lam - 2.0) if lam > 2 else -INF
        hi = -1.0 / lam if lam < 0 else INF
        return (lo, hi)
    if name == "Modulus":
        if lam < 0:
            return (1.0 / lam, -1.0 / lam)
        return (-INF, INF)
    return (-INF, INF)


def loglikelihood(name, p, x):
    """Gaussian maximum-likelihood definition: -n/2 log(2 pi s^2) - n/2 + sum log y'(x)."""
    x = np.asarray(x, dtype=float)
    y = forward(name, p, x)
    n = x.size
    s2 = float(np.mean((y - np.mean(y)) ** 2))
    return -0.5 * n * math.log(2 * math.pi * s2) - 0.5 * n + float(np.sum(np.log(derivative(name, p, x))))
