"""Workload executed in a subprocess against one build flavour of the kernels (shipped / omp / asan / tsan).

python -m gsverif.native.run_native <spec.json> <out.json>
spec: {"modules": {"summator": path|null, ...}, "threads": [...], "seed": int, "sizes": [...], "api": bool, "reps": int}
Output: {"hashes": {case: {threads: sha1}}, "sum_mismatch": [...], "counters": {...}, "calls": int}
"""

import hashlib
import importlib.machinery
import importlib.util
import json
import os
import sys
import time

SRC = os.environ.get("GSVERIF_SRC", "/repo/src")
if SRC not in sys.path[:1]:
    sys.path.insert(0, SRC)

MODNAMES = {"summator": "gstools.field.summator", "krigesum": "gstools.krige.krigesum", "estimator": "gstools.variogram.estimator"}


def preseed(modules):
    """Load alternative builds of the kernel modules before gstools is imported (the Python wrappers then dispatch to them)."""
    import types

    # parent packages must exist as *real* packages: import them lazily by creating namespace stubs is fragile, so the
    # kernels are loaded under their final names and inserted; `import gstools` afterwards finds them in sys.modules
    loaded = {}
    for short, path in modules.items():
        if not path:
            continue
        name = MODNAMES[short]
        loader = importlib.machinery.ExtensionFileLoader(name, path)
        spec = importlib.util.spec_from_file_location(name, path, loader=loader)
        mod = importlib.util.module_from_spec(spec)
        loader.exec_module(mod)
        sys.modules[name] = mod
        loaded[short] = path
    return loaded


def h(*arrays):
    import numpy as np

    m = hashlib.sha1()
    for a in arrays:
        a = np.ascontiguousarray(a)
        m.update(str(a.shape).encode())
        m.update(a.tobytes())
    return m.hexdigest()[:16]


def main(spec_path, out_path):
    spec = json.load(open(spec_path))
    loaded = preseed(spec.get("modules", {}))
    import numpy as np
    import gstools as gs
    from gstools import config
    from gstools.field import summator as S
    from gstools.krige import krigesum as K
    from gstools.variogram import estimator as E

    for short, path in loaded.items():
        mod = sys.modules[MODNAMES[short]]
        assert os.path.realpath(mod.__file__) == os.path.realpath(path), (mod.__file__, path)
    threads = spec["threads"]
    sizes = spec["sizes"]
    rng = np.random.default_rng([spec["seed"], 15])
    hashes, mism, calls = {}, [], 0
    t0 = time.time()

    def run(case, fn):
        nonlocal calls
        out = {}
        for t in threads:
            for rep in range(spec.get("reps", 1)):
                res = fn(t)
                calls += 1
                res = res if isinstance(res, tuple) else (res,)
                hv = h(*res)
                key = "None" if t is None else str(t)
                if key in out and out[key] != hv:
                    out[key + f"#rep{rep}"] = hv
                else:
                    out[key] = hv
        hashes[case] = out
        return res

    def vals(shape, kind):
        if kind == "normal":
            return rng.normal(size=shape)
        if kind == "huge":
            return rng.normal(size=shape) * 1e8
        if kind == "denormal":
            return rng.normal(size=shape) * 1e-310
        if kind == "zeros":
            return np.where(rng.random(size=shape) < 0.5, 0.0, -0.0)
        raise KeyError(kind)

    # ---- summation kernels -------------------------------------------------------------------------------------
    for dim in (1, 2, 3, 4):
        for X in sizes:
            for N in [s for s in sizes if s <= 1000][:: 2 if X > 100 else 1]:
                kind = str(rng.choice(["normal", "normal", "huge", "denormal", "zeros"]))
                k = vals((dim, N), kind)
                z1, z2 = rng.normal(size=N), rng.normal(size=N)
                pos = vals((dim, X), "normal" if kind != "huge" else "huge")
                strided = bool(rng.random() < 0.3) and X > 1
                if strided:
                    big = np.zeros((dim, 2 * X))
                    big[:, ::2] = pos
                    pos_arg = big[:, ::2]
                else:
                    pos_arg = pos
                cid = f"summate/d{dim}/X{X}/N{N}/{kind}/{'strided' if strided else 'contig'}"
                res = run(cid, lambda t: S.summate(k, z1, z2, pos_arg, t))
                if spec.get("check_sums") and kind == "normal" and X * N <= 2_000_000:
                    ph = k.T @ pos
                    want = z1 @ np.cos(ph) + z2 @ np.sin(ph)
                    tol = 1e-13 * (np.abs(z1).sum() + np.abs(z2).sum())
                    # phases are accumulated over d in both evaluations; allow eps*|phase|*|z| per mode
                    tol = tol + 4 * 2.3e-16 * (np.max(np.abs(ph), initial=0.0) + 1) * (np.abs(z1).sum() + np.abs(z2).sum())
                    if not np.all(np.abs(res[0] - want) <= tol):
                        mism.append({"case": cid, "max_err": float(np.max(np.abs(res[0] - want))), "tol": float(np.max(tol))})
                sf = np.abs(rng.normal(size=N))
                cid = f"summate_fourier/d{dim}/X{X}/N{N}/{kind}"
                res = run(cid, lambda t: S.summate_fourier(sf, k, z1, z2, pos_arg, t))
                if spec.get("check_sums") and kind == "normal" and X * N <= 2_000_000:
                    ph = k.T @ pos
                    want = (sf * z1) @ np.cos(ph) + (sf * z2) @ np.sin(ph)
                    tol = 1e-13 * (np.abs(sf * z1).sum() + np.abs(sf * z2).sum()) + 4 * 2.3e-16 * (np.max(np.abs(ph), initial=0.0) + 1) * (np.abs(sf * z1).sum() + np.abs(sf * z2).sum())
                    if not np.all(np.abs(res[0] - want) <= tol):
                        mism.append({"case": cid, "max_err": float(np.max(np.abs(res[0] - want))), "tol": float(tol)})
                if dim in (2, 3) and N > 0 and kind in ("normal", "huge"):
                    cid = f"summate_incompr/d{dim}/X{X}/N{N}/{kind}"
                    res = run(cid, lambda t: S.summate_incompr(k, z1, z2, pos_arg, t))
                    if spec.get("check_sums") and kind == "normal" and X * N <= 2_000_000:
                        ph = k.T @ pos
                        e1 = np.zeros((dim, 1))
                        e1[0] = 1
                        proj = e1 - k * k[0][None, :] / np.sum(k * k, axis=0)[None, :]
                        amp = z1[:, None] * np.cos(ph) + z2[:, None] * np.sin(ph)
                        want = proj @ amp
                        tol = 1e-12 * np.max(np.abs(proj) @ np.abs(amp), initial=0.0) + 1e-13
                        if not np.all(np.abs(res[0] - want) <= tol + 4 * 2.3e-16 * (np.max(np.abs(ph), initial=0.0) + 1) * (np.abs(z1).sum() + np.abs(z2).sum())):
                            mism.append({"case": cid, "max_err": float(np.max(np.abs(res[0] - want)))})
    # ---- kriging kernels ---------------------------------------------------------------------------------------
    for M in [s for s in sizes if 0 < s <= 64] + [100]:
        for R in sizes:
            mat = rng.normal(size=(M, M))
            vecs = rng.normal(size=(M, R))
            cond = rng.normal(size=M)
            if rng.random() < 0.3 and R > 1:
                big = np.zeros((M, 2 * R))
                big[:, ::2] = vecs
                vecs_arg = big[:, ::2]
            else:
                vecs_arg = vecs
            cid = f"krige_var/M{M}/R{R}"
            res = run(cid, lambda t: K.calc_field_krige_and_variance(mat, vecs_arg, cond, t))
            if spec.get("check_sums"):
                fac = mat @ vecs
                wf, we = cond @ fac, np.sum(vecs * fac, axis=0)
                tol = 1e-13 * np.max(np.abs(mat) @ np.abs(vecs), initial=0.0) * max(np.abs(cond).sum(), np.max(np.abs(vecs).sum(axis=0), initial=0.0)) + 1e-300
                if not (np.all(np.abs(res[0] - wf) <= tol) and np.all(np.abs(res[1] - we) <= tol)):
                    mism.append({"case": cid, "max_err": float(max(np.max(np.abs(res[0] - wf), initial=0), np.max(np.abs(res[1] - we), initial=0)))})
            cid = f"krige/M{M}/R{R}"
            res2 = run(cid, lambda t: K.calc_field_krige(mat, vecs_arg, cond, t))
            if not np.array_equal(res2[0], res[0]):
                mism.append({"case": cid, "what": "field differs between the two kriging kernels"})
    # ---- variogram kernels -------------------------------------------------------------------------------------
    for n in [s for s in sizes if s <= 400]:
        for dim in (1, 2, 3):
            nf = int(rng.integers(1, 3))
            pos = rng.normal(size=(dim, n)) * 3
            f = rng.normal(size=(nf, n))
            if n > 3:
                f[0, rng.integers(0, n, size=max(1, n // 8))] = np.nan
            if rng.random() < 0.15:
                f[:] = np.nan
            nb = int(rng.choice([1, 2, 5, 17]))
            edges = np.linspace(0, 6, nb + 1)
            for est in ("m", "c"):
                run(f"unstructured/d{dim}/n{n}/nb{nb}/{est}", lambda t: E.unstructured(f, edges, pos, est, "e", t))
            if dim == 2:
                ll = np.array([rng.uniform(-90, 90, size=n), rng.uniform(-180, 180, size=n)])
                run(f"haversine/n{n}/nb{nb}", lambda t: E.unstructured(f, np.linspace(0, 3.2, nb + 1), ll, "m", "h", t))
            if dim > 1:
                d = rng.normal(size=(int(rng.integers(1, 4)), dim))
                d /= np.linalg.norm(d, axis=1)[:, None]
                for sep in (False, True):
                    run(f"directional/d{dim}/n{n}/nb{nb}/sep{sep}", lambda t: E.directional(f, edges, pos, d, 0.6, float(rng.choice([-1.0, 1.5])) * 0 + 1.5, sep, "m", t))
    # one prange (with its barriers) per (i, j) of the grid: sizes kept moderate, a barrier costs ~10 us with 16 threads
    for a, bs in [(s, (1, 3, 40)) for s in sizes if 0 < s <= 64] + [(s, (2,)) for s in sizes if 64 < s <= 400]:
        for b in bs:
            g = rng.normal(size=(a, b))
            msk = (rng.random(size=(a, b)) < 0.3).astype(np.uint8)
            for est in ("m", "c"):
                run(f"structured/{a}x{b}/{est}", lambda t: E.structured(g, est, t))
                run(f"ma_structured/{a}x{b}/{est}", lambda t: E.ma_structured(g, msk, est, t))
            run(f"ma_structured/{a}x{b}/allmasked", lambda t: E.ma_structured(g, np.ones_like(msk), "m", t))
    # ---- public API with config.NUM_THREADS ----------------------------------------------------------------------
    if spec.get("api", True):
        import warnings

        warnings.simplefilter("ignore")
        x = rng.uniform(0, 10, size=(2, 57))
        model = gs.Exponential(dim=2, var=1.3, len_scale=[2.0, 1.0], angles=0.4, nugget=0.0)
        cp, cv = rng.uniform(0, 10, size=(2, 13)), rng.normal(size=13)

        def api(t):
            config.NUM_THREADS = t
            try:
                out = []
                out.append(gs.SRF(model, seed=3, mode_no=64)(x))
                out.append(gs.SRF(model, seed=3, generator="VectorField", mode_no=32)(x))
                out.append(gs.SRF(gs.Gaussian(dim=2), seed=3, generator="Fourier", period=12.0, mode_no=8)(x))
                kf, kv = gs.krige.Universal(model, cp, cv, "linear")(x, chunk_size=20)
                out += [kf, kv]
                out.append(gs.krige.Ordinary(model, cp, cv)(x, return_var=False))
                out += list(gs.vario_estimate(x, out[0], np.linspace(0, 5, 7), return_counts=True))
                out += list(gs.vario_estimate(x, out[0], np.linspace(0, 5, 7), direction=[[1, 0], [0.3, 1]], angles_tol=0.5, bandwidth=2.0, return_counts=True, estimator="cressie"))
                grid = rng.normal(size=(30, 12))
                out.append(gs.vario_estimate_axis(grid, "x"))
                out.append(gs.vario_estimate_axis(np.ma.array(grid, mask=rng.random(grid.shape) < 0.2), "y", estimator="cressie"))
                return tuple(np.asarray(o, dtype=float) for o in out)
            finally:
                config.NUM_THREADS = None

        st = rng.bit_generator.state

        def api_fixed(t):
            rng.bit_generator.state = st
            return api(t)

        run("public_api", api_fixed)
    counters = {}
    for short, path in loaded.items():
        try:
            import ctypes

            lib = ctypes.CDLL(path)
            lib.verif_omp_counter.restype = ctypes.c_long
            counters[short] = {"parallel_regions": int(lib.verif_omp_counter(0)), "barriers": int(lib.verif_omp_counter(1)),
                               "team_members": int(lib.verif_omp_counter(3))}
        except (AttributeError, OSError):
            pass
    json.dump({"hashes": hashes, "sum_mismatch": mism, "counters": counters, "calls": calls, "wall_s": time.time() - t0,
               "loaded": loaded}, open(out_path, "w"))
    return 0


if __name__ == "__main__":
    sys.exit(main(sys.argv[1], sys.argv[2]))
