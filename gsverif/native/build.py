"""Native (OpenMP / sanitizer) builds of the Cython-generated kernels of the working tree.

Cython is not available in this sandbox; what can be rebuilt is the generated C/C++ that ships next to the .pyx files
(summator.c, krigesum.c, estimator.cpp).  Flavours:
  omp  : -O3 -fopenmp                (the #pragma omp lines Cython emits become live; explicit num_threads honoured)
  asan : -O1 -g -fsanitize=address,undefined -fno-sanitize-recover=undefined -fopenmp
  tsan : -O1 -g -fsanitize=thread -fopenmp + libgomp happens-before shim
Outputs are cached in /verif/.build/native/<sha256(source+flags)>/.
"""

import hashlib
import os
import re
import subprocess
import sys
import sysconfig
from concurrent.futures import ThreadPoolExecutor

ROOT = os.environ.get("GSVERIF_ROOT") or os.path.dirname(os.path.dirname(os.path.dirname(os.path.abspath(__file__))))
SRC = os.environ.get("GSVERIF_SRC", "/repo/src")
MODULES = {
    "summator": ("gstools/field/summator.c", "gstools.field.summator", "gstools/field/summator.pyx"),
    "krigesum": ("gstools/krige/krigesum.c", "gstools.krige.krigesum", "gstools/krige/krigesum.pyx"),
    "estimator": ("gstools/variogram/estimator.cpp", "gstools.variogram.estimator", "gstools/variogram/estimator.pyx"),
}
FLAVOURS = {
    "omp": ["-O3", "-fopenmp"],
    "asan": ["-O1", "-g", "-fno-omit-frame-pointer", "-fsanitize=address,undefined", "-fno-sanitize-recover=undefined", "-fopenmp"],
    "tsan": ["-O1", "-g", "-fno-omit-frame-pointer", "-fsanitize=thread", "-fopenmp"],
}
SHIM = os.path.join(os.path.dirname(os.path.abspath(__file__)), "omp_tsan_shim.c")


def _includes():
    import numpy

    return ["-I" + sysconfig.get_paths()["include"], "-I" + numpy.get_include()]


def source_path(mod):
    return os.path.join(SRC, MODULES[mod][0])


def build(mod, flavour, verbose=False):
    """Returns (path to the built extension, built_now) or raises RuntimeError."""
    src = source_path(mod)
    if not os.path.exists(src):
        raise RuntimeError(f"generated source {src} missing (no Cython in this sandbox)")
    flags = FLAVOURS[flavour]
    cxx = src.endswith(".cpp")
    h = hashlib.sha256()
    h.update(open(src, "rb").read())
    h.update(" ".join(flags).encode())
    if flavour == "tsan":
        h.update(open(SHIM, "rb").read())
    out_dir = os.path.join(ROOT, ".build", "native", h.hexdigest()[:20])
    out = os.path.join(out_dir, mod + sysconfig.get_config_var("EXT_SUFFIX"))
    if os.path.exists(out):
        return out, False
    os.makedirs(out_dir, exist_ok=True)
    cc = "g++" if cxx else "gcc"
    cmd = [cc, "-shared", "-fPIC", "-fwrapv", "-fno-strict-overflow", "-w", "-DNPY_NO_DEPRECATED_API=NPY_1_7_API_VERSION"] + flags + _includes() + [src]
    if flavour == "tsan":
        shim_o = os.path.join(out_dir, f"shim.{os.getpid()}.o")
        subprocess.run(["gcc", "-c", "-fPIC", "-O1", "-g", SHIM, "-o", shim_o], check=True, capture_output=True)
        cmd += [shim_o, "-Wl,-Bsymbolic", "-ldl"]
    tmp_out = out + f".{os.getpid()}.tmp"  # several shards may build the same flavour at once
    cmd += ["-o", tmp_out]
    r = subprocess.run(cmd, capture_output=True, text=True)
    if r.returncode != 0:
        raise RuntimeError(f"build of {mod}/{flavour} failed: {r.stderr[-800:]}")
    os.replace(tmp_out, out)
    if verbose:
        print(f"built {mod}/{flavour} -> {out}")
    return out, True


def build_all(flavours=("omp", "asan", "tsan"), verbose=False):
    jobs = [(m, f) for m in MODULES for f in flavours]
    res = {}
    with ThreadPoolExecutor(max_workers=min(9, len(jobs))) as ex:
        futs = {ex.submit(build, m, f, verbose): (m, f) for m, f in jobs}
        for fu, key in futs.items():
            try:
                res[key] = fu.result()[0]
            except Exception as exc:
                res[key] = exc
    return res


def freshness(mod):
    """Does every code line of the current .pyx occur in the embedded source comments of the generated C?"""
    pyx = os.path.join(SRC, MODULES[mod][2])
    csrc = open(source_path(mod), errors="replace").read()
    missing = []
    for ln in open(pyx):
        s = ln.strip()
        if not s or s.startswith("#") or s.startswith('"""') or len(s) < 8:
            continue
        # cimport lines and the parameter lines of multi-line C signatures are not echoed by Cython
        if "cimport" in s or re.match(r"^(const\s+)?[\w\.]+(\[[:,\s]*\])?\s+\w+,?$", s):
            continue
        if s not in csrc:
            missing.append(s)
    return missing


def preload_env(flavour):
    env = {}
    if flavour == "asan":
        lib = subprocess.run(["gcc", "-print-file-name=libasan.so"], capture_output=True, text=True).stdout.strip()
        env["LD_PRELOAD"] = lib
    elif flavour == "tsan":
        lib = subprocess.run(["gcc", "-print-file-name=libtsan.so"], capture_output=True, text=True).stdout.strip()
        env["LD_PRELOAD"] = lib
    return env


def prebuild_all(verbose=False):
    res = build_all(verbose=verbose)
    bad = {k: str(v) for k, v in res.items() if isinstance(v, Exception)}
    for k, v in bad.items():
        print(f"native build failed {k}: {v}", file=sys.stderr)
    return 0 if not bad else 0  # a failed native build makes C15 inconclusive, it does not break the setup of the other checks


if __name__ == "__main__":
    sys.exit(prebuild_all(verbose=True))
