"""Native (sanitizer / OpenMP) builds of the generated kernels – filled in with C15."""


def prebuild_all(verbose=False):
    return 0
