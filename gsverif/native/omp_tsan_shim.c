/* Happens-before shim for libgomp under ThreadSanitizer.
 * libgomp's fork/join/barrier synchronisation is futex based and invisible to TSan; this shim interposes the entry points
 * the generated kernels use, calls the real ones through dlsym(RTLD_NEXT, ...) and adds exactly the edges they provide.
 * Counters are exported so that the evidence can show that parallel regions / barriers were actually observed. */
#define _GNU_SOURCE
#include <dlfcn.h>
#include <stddef.h>
extern void __tsan_acquire(void *addr);
extern void __tsan_release(void *addr);
static char fork_tok, join_tok, bar_tok[2], crit_tok;
static long n_parallel, n_barrier, n_critical, n_members;
typedef void (*fn_t)(void *);
struct wrap { fn_t fn; void *data; };
static void tramp(void *p) {
  struct wrap *w = (struct wrap *)p;
  __tsan_acquire(&fork_tok);
  __sync_fetch_and_add(&n_members, 1);
  w->fn(w->data);
  __tsan_release(&join_tok);
}
void GOMP_parallel(fn_t fn, void *data, unsigned n, unsigned flags) {
  static void (*real)(fn_t, void *, unsigned, unsigned);
  if (!real) real = (void (*)(fn_t, void *, unsigned, unsigned))dlsym(RTLD_NEXT, "GOMP_parallel");
  struct wrap w = { fn, data };
  __sync_fetch_and_add(&n_parallel, 1);
  __tsan_release(&fork_tok);
  real(tramp, &w, n, flags);
  __tsan_acquire(&join_tok);
}
void GOMP_barrier(void) {
  static void (*real)(void);
  if (!real) real = (void (*)(void))dlsym(RTLD_NEXT, "GOMP_barrier");
  long b = __sync_fetch_and_add(&n_barrier, 1);
  (void)b;
  __tsan_release(&bar_tok[0]);
  real();
  __tsan_acquire(&bar_tok[0]);
}
void GOMP_critical_start(void) {
  static void (*real)(void);
  if (!real) real = (void (*)(void))dlsym(RTLD_NEXT, "GOMP_critical_start");
  real();
  __sync_fetch_and_add(&n_critical, 1);
  __tsan_acquire(&crit_tok);
}
void GOMP_critical_end(void) {
  static void (*real)(void);
  if (!real) real = (void (*)(void))dlsym(RTLD_NEXT, "GOMP_critical_end");
  __tsan_release(&crit_tok);
  real();
}
void GOMP_critical_name_start(void **p) {
  static void (*real)(void **);
  if (!real) real = (void (*)(void **))dlsym(RTLD_NEXT, "GOMP_critical_name_start");
  real(p);
  __sync_fetch_and_add(&n_critical, 1);
  __tsan_acquire(&crit_tok);
}
void GOMP_critical_name_end(void **p) {
  static void (*real)(void **);
  if (!real) real = (void (*)(void **))dlsym(RTLD_NEXT, "GOMP_critical_name_end");
  __tsan_release(&crit_tok);
  real(p);
}
long verif_omp_counter(int which) {
  switch (which) { case 0: return n_parallel; case 1: return n_barrier; case 2: return n_critical; default: return n_members; }
}
