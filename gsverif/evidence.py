"""Builds and validates evidence/<id>.json from the merged shard results."""

import json
import os

ROOT = os.environ.get("GSVERIF_ROOT") or os.path.dirname(os.path.dirname(os.path.abspath(__file__)))


def write(prop, tier, seed, mod, merged, wall, known, n_unknown, inconclusive):
    cov = {
        "evaluations": int(merged["cases"]),
        "distinct_nontrivial": int(len(merged["fps"])),
        "rule": getattr(mod, "RULE", "seeded generator; distinct = sha1 of the canonical case description; "
                        "discarded cases are trivial"),
        "samples": merged["samples"] or [{"note": "no case executed"}],
        "monitor_events": merged["events"],
        "cells": dict(sorted(merged["cells"].items())),
        "n_cells": len(merged["cells"]),
        "discarded": merged["discards"],
        "known_findings_observed": known,
        "resolution": merged["resolution"],
        "generated_cases": merged["generated"],
        "verdict": "violated" if n_unknown else ("inconclusive" if inconclusive else "held-on-observed"),
        "inconclusive_reasons": inconclusive,
    }
    cov.update(merged.get("extras", {}))
    ev = {
        "property_id": prop,
        "tier": tier,
        "seed": int(seed),
        "level": "exploration",
        "coverage": cov,
        "assumptions": list(getattr(mod, "ASSUMPTIONS", [])),
        "wall_s": round(float(wall), 2),
        "violations": int(n_unknown),
    }
    evdir = os.environ.get("GSVERIF_EVIDENCE_DIR") or os.path.join(ROOT, "evidence")
    os.makedirs(evdir, exist_ok=True)
    path = os.path.join(evdir, f"{prop}.json")
    try:
        import jsonschema

        schema = json.load(open(os.path.join(os.path.dirname(__file__), "schemas", "EVIDENCE.schema.json")))
        try:
            jsonschema.validate(ev, schema)
        except jsonschema.ValidationError as exc:
            ev["coverage"]["schema_error"] = str(exc)[:300]
    except ImportError:
        pass
    with open(path, "w") as fh:
        json.dump(ev, fh, indent=1, sort_keys=True)
    return path
