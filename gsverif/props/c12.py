"""C12 – anisotropy and rotation act as a linear change of coordinates."""

import math
import warnings

import numpy as np

from gsverif import common
from gsverif.common import gs
from gsverif.oracles import rot as orot

SHARDS = {"quick": 8, "thorough": 16}
TIMEOUT = {"quick": 900, "thorough": 3600}
REQUIRED_EVENTS = ["rot_matrix_compared", "iso_roundtrips", "pipeline_fields_compared", "live_transforms_compared"]
RULE = (
    "seeded configurations (dim 1-4, angle vectors incl. 0, +-pi/2, pi, >2pi, ratios 1e-3..1e3, models); "
    "a case is non-trivial if at least one anisotropy ratio != 1 or one angle != 0 (dim>1) or it is a padding-rule case"
    " Also: live geometry updates (anis, angles, len_scale/integral_scale lists, dim) on used models; rotated models with all ratios 1, ratios within 1e-5 of 1, unrotated stretched models; universal kriging with the drift stated in both frames; anisotropy fitted at construction."
)
ASSUMPTIONS = [
    "O-ROT (gsverif/oracles/rot.py) encodes the documented conventions: ccw about z in 2-D; Rx(roll)Ry(pitch)Rz(yaw) in 3-D",
    "numpy.linalg and libm are correct",
]
LEVEL_TEXT = (
    "Runtime oracle comparison: every transform / pipeline result of the real code is compared with an independent "
    "construction of the documented rotation and stretching on seeded configurations in dim 1-4."
)
TECHNIQUE = "runtime oracle monitor (independent rotation/stretch construction) + metamorphic twin-model comparison"

SPECIAL_ANGLES = [0.0, math.pi / 2, -math.pi / 2, math.pi, 2 * math.pi + 0.3, -7.5, 1e-9, 0.7853981633974483]
PIPE_MODELS = ["Gaussian", "Exponential", "Matern", "Stable", "Spherical", "TPLGaussian", "Integral", "Rational"]


def _draw_geom(rng, dim, hostile):
    na = dim * (dim - 1) // 2
    if hostile:
        angles = [float(rng.choice(SPECIAL_ANGLES)) if rng.random() < 0.6 else float(rng.uniform(-10, 10)) for _ in range(na)]
        anis = [float(np.exp(rng.uniform(math.log(1e-3), math.log(1e3)))) for _ in range(dim - 1)]
    else:
        angles = [float(rng.uniform(-math.pi, math.pi)) for _ in range(na)]
        anis = [float(np.exp(rng.uniform(math.log(0.2), math.log(5.0)))) for _ in range(dim - 1)]
        g = rng.random()
        if g < 0.2:
            anis = [1.0] * (dim - 1)  # rotated but all ratios 1: still a rotation of the coordinates (drifts, period lattices see it)
        elif g < 0.4:
            angles = [0.0] * na  # stretched but not rotated (where "no rotation" shortcuts live)
    return angles, anis


def generate(tier, seed):
    rng = np.random.default_rng([seed, 12])
    n = {"quick": 1, "thorough": 80}[tier]
    cases = []
    for rep in range(60 * n):
        for dim in (1, 2, 3, 4):
            angles, anis = _draw_geom(rng, dim, hostile=rep % 2 == 0)
            cases.append(("rot_matrix", {"dim": dim, "angles": angles}))
            cases.append(("iso", {"dim": dim, "angles": angles, "anis": anis, "pseed": int(rng.integers(1 << 30)),
                                  "model": str(rng.choice(["Gaussian", "Exponential", "Stable"]))}))
    for rep in range(25 * n):
        for dim in (1, 2, 3, 4):
            name = str(rng.choice([m for m in PIPE_MODELS if dim <= common.max_valid_dim(m)]))
            angles, anis = _draw_geom(rng, dim, hostile=rep % 3 == 0)
            cases.append(("axes", {"dim": dim, "angles": angles, "anis": anis, "name": name,
                                   "len_scale": round(float(rng.uniform(0.5, 5)), 3), "nugget": float(rng.choice([0.0, 0.3]))}))
    for rep in range(20 * n):
        cases.append(("padding", {"dim": int(rng.integers(1, 5)), "pseed": int(rng.integers(1 << 30))}))
    for rep in range(30 * n):
        for dim in (2, 3, 4):
            a0, e0 = _draw_geom(rng, dim, hostile=False)
            steps = []
            for _ in range(int(rng.integers(1, 4))):
                a1, e1 = _draw_geom(rng, dim, hostile=False)
                steps.append({"route": str(rng.choice(["anis", "angles", "len_scale_list", "integral_scale_list", "len_scale_scalar", "dim"])),
                              "angles": a1, "anis": e1, "len_scale": round(float(rng.uniform(0.5, 5)), 3)})
            cases.append(("live", {"dim": dim, "angles": a0, "anis": e0, "steps": steps, "pseed": int(rng.integers(1 << 30)),
                                   "name": str(rng.choice(["Gaussian", "Exponential", "Stable", "Matern"]))}))
    gens = ["RandMeth", "IncomprRandMeth", "Fourier"]
    for rep in range(14 * n):
        for dim in (1, 2, 3):
            for g in gens:
                if g == "IncomprRandMeth" and dim == 1:
                    continue
                name = str(rng.choice([m for m in PIPE_MODELS if dim <= common.max_valid_dim(m)]))
                angles, anis = _draw_geom(rng, dim, hostile=False)
                cases.append(("pipe_srf", {"gen": g, "dim": dim, "name": name, "angles": angles, "anis": anis,
                                           "seed": int(rng.integers(1, 1 << 20)), "pseed": int(rng.integers(1 << 30)),
                                           "len_scale": round(float(rng.uniform(0.5, 4)), 3), "structured": bool(rng.random() < 0.3)}))
    for rep in range(14 * n):
        for dim in (1, 2, 3):
            name = str(rng.choice([m for m in PIPE_MODELS if dim <= common.max_valid_dim(m)]))
            angles, anis = _draw_geom(rng, dim, hostile=False)
            cases.append(("pipe_krige", {"dim": dim, "name": name, "angles": angles, "anis": anis,
                                         "variant": str(rng.choice(["Simple", "Ordinary", "ExtDrift", "Universal", "Universal", "Fitted"])),
                                         "seed": int(rng.integers(1, 1 << 20)), "pseed": int(rng.integers(1 << 30)),
                                         "nugget": float(rng.choice([0.0, 0.2])),
                                         "len_scale": round(float(rng.uniform(0.8, 4)), 3), "cond": bool(rep % 2)}))
    return cases


def _nontrivial(ctx, dim, angles, anis):
    if dim == 1 or (all(abs(a) < 1e-12 for a in angles) and all(abs(e - 1) < 1e-12 for e in anis)):
        ctx.trivial()


def check_rot_matrix(ctx, c):
    dim, angles = c["dim"], c["angles"]
    _nontrivial(ctx, dim, angles, [2.0] * (dim - 1))
    from gstools.tools import geometric as geo

    m = geo.matrix_rotate(dim, angles)
    ref = orot.rot(dim, angles)
    ctx.event("rot_matrix_compared")
    ctx.cell(f"rot/dim{dim}")
    err = common.maxabs(m - ref)
    ctx.resolve("rot_matrix_abs", err)
    if err > 1e-13:
        ctx.fail({"what": "matrix_rotate!=oracle", "dim": dim}, f"matrix_rotate differs from oracle by {err:.3e}", got=m, ref=ref)
    orth = common.maxabs(m.T @ m - np.eye(dim))
    det = float(np.linalg.det(m))
    if orth > 1e-14 * 10 or abs(det - 1.0) > 1e-13:
        ctx.fail({"what": "not-proper-orthogonal", "dim": dim}, f"|MtM-I|={orth:.2e} det={det}")
    d = geo.matrix_derotate(dim, angles)
    if common.maxabs(d @ m - np.eye(dim)) > 1e-13:
        ctx.fail({"what": "derotate-not-inverse", "dim": dim}, "matrix_derotate @ matrix_rotate != I")
    ax = geo.rotated_main_axes(dim, angles)
    for i in range(dim):
        if common.maxabs(ax[i] - ref[:, i]) > 1e-13:
            ctx.fail({"what": "main_axes!=oracle-columns", "dim": dim}, f"axis {i}: {ax[i]} vs {ref[:, i]}")
    if dim == 2:
        a = angles[0]
        if common.maxabs(ax[0] - np.array([math.cos(a), math.sin(a)])) > 1e-13:
            ctx.fail({"what": "2d-not-ccw", "dim": 2}, f"first main axis {ax[0]} for angle {a}")


def check_iso(ctx, c):
    dim, angles, anis = c["dim"], c["angles"], c["anis"]
    _nontrivial(ctx, dim, angles, anis)
    rng = np.random.default_rng(c["pseed"])
    x = rng.normal(size=(dim, 17)) * np.exp(rng.uniform(-3, 3))
    with warnings.catch_warnings():
        warnings.simplefilter("ignore")
        model = getattr(gs, c["model"])(dim=dim, anis=anis if dim > 1 else 1.0, angles=angles if dim > 1 else 0.0)
    iso = model.isometrize(x)
    ref = orot.isometrize(dim, angles, anis, x)
    scale = max(1.0, common.maxabs(ref))
    ctx.event("iso_roundtrips")
    ctx.cell(f"iso/dim{dim}")
    e1 = common.maxabs(iso - ref) / scale
    ctx.resolve("isometrize_rel", e1)
    if e1 > 1e-12:
        ctx.fail({"what": "isometrize!=oracle", "dim": dim}, f"isometrize differs from diag(1,1/e)M^T x by {e1:.2e}")
    back = model.anisometrize(iso)
    e2 = common.maxabs(back - x) / max(1.0, common.maxabs(x))
    # conditioning of the stretch: ratios up to 1e3 amplify rounding
    cond = max([1.0] + [max(e, 1 / e) for e in anis])
    ctx.resolve("roundtrip_rel", e2)
    if e2 > 1e-13 * cond * 10:
        ctx.fail({"what": "anisometrize(isometrize)!=id", "dim": dim}, f"round trip error {e2:.2e}")
    fwd = model.isometrize(model.anisometrize(x))
    e3 = common.maxabs(fwd - x) / max(1.0, common.maxabs(x))
    if e3 > 1e-13 * cond * 10:
        ctx.fail({"what": "isometrize(anisometrize)!=id", "dim": dim}, f"round trip error {e3:.2e}")
    # spatial covariance = isotropic covariance of the oracle radius
    r = np.linalg.norm(ref, axis=0)
    for fn_sp, fn_iso in (("cov_spatial", "covariance"), ("vario_spatial", "variogram"), ("cor_spatial", "correlation")):
        a = getattr(model, fn_sp)(x)
        b = getattr(model, fn_iso)(r)
        if common.maxabs(a - b) > 1e-10:
            ctx.fail({"what": f"{fn_sp}!=iso-of-oracle-radius", "dim": dim}, f"max diff {common.maxabs(a-b):.2e}")


def check_axes(ctx, c):
    dim, angles, anis = c["dim"], c["angles"], c["anis"]
    _nontrivial(ctx, dim, angles, anis)
    with warnings.catch_warnings():
        warnings.simplefilter("ignore")
        model = getattr(gs, c["name"])(dim=dim, len_scale=c["len_scale"], nugget=c["nugget"],
                                       anis=anis if dim > 1 else 1.0, angles=angles if dim > 1 else 0.0)
    ref = orot.rot(dim, angles)
    axes = model.main_axes()
    t = np.array([0.0, 0.01, 0.3, 1.0, 2.5, 7.0]) * c["len_scale"]
    e = [1.0] + orot.pad_anis(dim, anis)
    lvec = model.len_scale_vec
    ctx.cell(f"axes/{c['name']}/dim{dim}")
    for i in range(dim):
        if common.maxabs(axes[i] - ref[:, i]) > 1e-13:
            ctx.fail({"what": "model.main_axes!=oracle", "dim": dim}, f"axis {i}")
        if not abs(lvec[i] - c["len_scale"] * e[i]) <= 1e-12 * lvec[i]:
            ctx.fail({"what": "len_scale_vec", "dim": dim}, f"len_scale_vec[{i}]={lvec[i]} expected {c['len_scale']*e[i]}")
        pts = ref[:, [i]] * t[None, :]
        ctx.event("axis_profiles")
        for sp, ax, iso in (("vario_spatial", "vario_axis", "variogram"), ("cov_spatial", "cov_axis", "covariance"),
                            ("cor_spatial", "cor_axis", "correlation")):
            want = getattr(model, iso)(t / e[i])
            got_sp = getattr(model, sp)(pts)
            got_ax = getattr(model, ax)(t, axis=i)
            tol = 1e-9 * max(1.0, float(model.sill))
            if common.maxabs(got_sp - want) > tol:
                ctx.fail({"what": f"{sp}-along-main-axis", "dim": dim, "axis": i},
                         f"{sp}(t*axis_{i}) != {iso}(t/anis): {common.maxabs(got_sp-want):.2e}")
            if common.maxabs(got_ax - want) > 1e-12 * max(1.0, float(model.sill)):
                ctx.fail({"what": f"{ax}", "dim": dim, "axis": i}, f"{ax}(t, axis={i}) != {iso}(t/anis)")


def check_live(ctx, c):
    """Geometry updates on a live (already used) model: every transform follows the geometry the model reports now."""
    dim = c["dim"]
    rng = np.random.default_rng(c["pseed"])
    with warnings.catch_warnings():
        warnings.simplefilter("ignore")
        model = getattr(gs, c["name"])(dim=dim, len_scale=2.0, anis=c["anis"], angles=c["angles"])
    ctx.cell(f"live/dim{dim}")

    def use(model, want_angles, want_anis, route):
        d = model.dim
        x = rng.normal(size=(d, 9)) * 3
        mech = {"what": "live-update", "route": route}
        if want_anis is not None and common.maxabs(np.asarray(model.anis) - np.asarray(want_anis)) > 1e-12 * max(1.0, common.maxabs(want_anis)):
            ctx.fail(dict(mech, what="anis-after-update"), f"route {route}: anis {model.anis}, expected {want_anis}")
            return False
        if want_angles is not None and common.maxabs(np.asarray(model.angles) - np.asarray(want_angles)) > 0:
            ctx.fail(dict(mech, what="angles-after-update"), f"route {route}: angles {model.angles}, expected {want_angles}")
            return False
        angles, anis = [float(a) for a in model.angles], [float(e) for e in model.anis]
        ref = orot.isometrize(d, angles, anis, x)
        iso = model.isometrize(x)
        ctx.event("live_transforms_compared")
        sc = max(1.0, common.maxabs(ref))
        if common.maxabs(iso - ref) / sc > 1e-12:
            ctx.fail(dict(mech, what="isometrize-ignores-current-geometry"), f"after {route}: isometrize differs from the oracle for the reported anis/angles by {common.maxabs(iso-ref)/sc:.2e}")
            return False
        back = model.anisometrize(iso)
        if common.maxabs(back - x) / max(1.0, common.maxabs(x)) > 1e-11:
            ctx.fail(dict(mech, what="anisometrize(isometrize)!=id-after-update"), f"after {route}: round trip error {common.maxabs(back-x):.2e}")
            return False
        r = np.linalg.norm(ref, axis=0)
        if common.maxabs(model.cov_spatial(x) - model.covariance(r)) > 1e-10 * max(1.0, float(model.sill)):
            ctx.fail(dict(mech, what="cov_spatial-ignores-current-geometry"), f"after {route}: cov_spatial != covariance(oracle radius)")
            return False
        rot = orot.rot(d, angles)
        ax = model.main_axes()
        if common.maxabs(np.asarray(ax).T - rot) > 1e-13:
            ctx.fail(dict(mech, what="main_axes-ignore-current-geometry"), f"after {route}")
            return False
        return True

    if not use(model, c["angles"], c["anis"], "init"):
        return
    for st in c["steps"]:
        route = st["route"]
        d = model.dim
        na = d * (d - 1) // 2
        want_angles = want_anis = None
        with warnings.catch_warnings():
            warnings.simplefilter("ignore")
            if route == "anis":
                model.anis = st["anis"][: d - 1]
                want_anis = orot.pad_anis(d, st["anis"][: d - 1])
            elif route == "angles":
                model.angles = st["angles"][:na]
                want_angles = (st["angles"][:na] + [0.0] * na)[:na]  # too few angles are filled up with 0
            elif route == "len_scale_list":
                ls = [st["len_scale"]] + [st["len_scale"] * e for e in st["anis"][: d - 1]]
                model.len_scale = ls
                full = ls + [ls[-1]] * (d - len(ls))  # too few length scales: the last one is repeated
                want_anis = [v / full[0] for v in full[1:]] if len(ls) > 1 else None
            elif route == "integral_scale_list":
                ls = [st["len_scale"]] + [st["len_scale"] * e for e in st["anis"][: d - 1]]
                model.integral_scale = ls
                full = ls + [ls[-1]] * (d - len(ls))
                want_anis = [v / full[0] for v in full[1:]] if len(ls) > 1 else None
            elif route == "len_scale_scalar":
                keep = [float(e) for e in model.anis]
                model.len_scale = st["len_scale"]
                want_anis = keep
            elif route == "dim":
                nd = int(2 + (d - 1) % 3)  # 2->3->4->2
                keep_e, keep_a = [float(e) for e in model.anis], [float(a) for a in model.angles]
                model.dim = nd
                cut = keep_e[: nd - 1]  # documented rule: too few ratios are filled up with 1 at the front
                want_anis = [1.0] * (nd - 1 - len(cut)) + cut
                want_angles = (keep_a + [0.0] * 6)[: nd * (nd - 1) // 2]
        if not use(model, want_angles, want_anis, route):
            return


def check_padding(ctx, c):
    from gstools.tools import geometric as geo
    from gstools.covmodel.tools import set_len_anis

    rng = np.random.default_rng(c["pseed"])
    dim = c["dim"]
    na = dim * (dim - 1) // 2
    ctx.event("padding_cases")
    k = int(rng.integers(0, na + 2))
    ang = [float(v) for v in rng.uniform(-3, 3, size=k)]
    out = geo.set_angles(dim, ang if k else 0.0)
    want = (ang + [0.0] * na)[:na] if k else [0.0] * na
    if len(out) != na or common.maxabs(np.asarray(out) - np.asarray(want)) > 0:
        ctx.fail({"what": "set_angles-padding"}, f"dim={dim} angles={ang} -> {out}, expected {want}")
    k = int(rng.integers(0, dim + 1))
    an = [float(v) for v in rng.uniform(0.2, 4, size=k)]
    if dim > 1:
        out = geo.set_anis(dim, an if k else 1.0)
        cut = an[: dim - 1]
        want = [1.0] * (dim - 1 - len(cut)) + cut
        if len(out) != dim - 1 or common.maxabs(np.asarray(out) - np.asarray(want)) > 0:
            ctx.fail({"what": "set_anis-padding"}, f"dim={dim} anis={an} -> {out}, expected {want}")
    k = int(rng.integers(1, dim + 2))
    ls = [float(v) for v in rng.uniform(0.5, 9, size=k)]
    anis_in = [float(v) for v in rng.uniform(0.2, 4, size=max(dim - 1, 1))]
    l0, aout = set_len_anis(dim, ls if k > 1 else ls[0], anis_in)
    if l0 != ls[0]:
        ctx.fail({"what": "set_len_anis-main"}, f"main length {l0} != {ls[0]}")
    if dim > 1:
        cut = ls[:dim]
        if len(cut) == 1:
            want = orot.pad_anis(dim, anis_in)
        else:
            full = cut + [cut[-1]] * (dim - len(cut))
            want = [full[i] / full[0] for i in range(1, dim)]
        if len(aout) != dim - 1 or common.maxabs(np.asarray(aout) - np.asarray(want)) > 1e-15 * 10:
            ctx.fail({"what": "set_len_anis-padding"}, f"dim={dim} len_scale={ls} anis={anis_in} -> {aout}, expected {want}")
    # the model applies the same rules
    if dim > 1:
        with warnings.catch_warnings():
            warnings.simplefilter("ignore")
            m = gs.Gaussian(dim=dim, len_scale=ls if k > 1 else ls[0], anis=anis_in, angles=ang if ang else 0.0)
        if len(m.anis) != dim - 1 or len(m.angles) != na:
            ctx.fail({"what": "model-lengths"}, f"len(anis)={len(m.anis)} len(angles)={len(m.angles)} in dim {dim}")


def _twin(c, dim):
    with warnings.catch_warnings():
        warnings.simplefilter("ignore")
        kw = dict(dim=dim, var=1.7, len_scale=c["len_scale"], nugget=c.get("nugget", 0.0))
        a = getattr(gs, c["name"])(anis=c["anis"] if dim > 1 else 1.0, angles=c["angles"] if dim > 1 else 0.0, **kw)
        b = getattr(gs, c["name"])(**kw)
    return a, b


def _phase_tol(gen, x):
    """Rounding of the transformed coordinates enters through the phases k.x: eps*|k|max*|x|max per mode."""
    k = getattr(gen, "_cov_sample", None)
    if k is None:
        k = gen._modes
    kmax = common.maxabs(k)
    return 1e-12 + 50 * 2.3e-16 * kmax * max(1.0, common.maxabs(x)) * 10


def check_pipe_srf(ctx, c):
    dim = c["dim"]
    _nontrivial(ctx, dim, c["angles"], c["anis"])
    a, b = _twin(c, dim)
    rng = np.random.default_rng(c["pseed"])
    kw = {}
    kwb = {}
    if c["gen"] == "Fourier":
        period = [float(v) for v in rng.uniform(6, 14, size=dim)]
        kw = dict(period=period, mode_no=[8] * dim if dim < 3 else [6] * dim)
        e = [1.0] + orot.pad_anis(dim, c["anis"])
        kwb = dict(period=[p / ei for p, ei in zip(period, e)], mode_no=kw["mode_no"])
    else:
        kw = kwb = dict(mode_no=64)
    if c["gen"] == "RandMeth" and not a.has_ppf:
        kw = kwb = dict(mode_no=64, sampling="mcmc")
    with warnings.catch_warnings():
        warnings.simplefilter("ignore")
        sa = gs.SRF(a, generator=c["gen"], seed=c["seed"], **kw)
        sb = gs.SRF(b, generator=c["gen"], seed=c["seed"], **kwb)
    if c["gen"] == "Fourier" and (list(sa.generator.mode_no) != list(kw["mode_no"]) or list(sb.generator.mode_no) != list(kw["mode_no"])):
        # np.arange(-n/2*dk, n/2*dk, dk) yields n+1 modes for some dk (floating point); the twin then has another grid
        ctx.discard("fourier: arange rounding produced an extra mode")
        return
    if c["structured"]:
        axes = [np.sort(rng.uniform(-4, 4, size=int(rng.integers(2, 5)))) for _ in range(dim)]
        fa = sa.structured(axes if dim > 1 else axes[0])
        x = np.array(np.meshgrid(*axes, indexing="ij")).reshape(dim, -1)
    else:
        x = rng.uniform(-5, 5, size=(dim, 23))
        fa = sa(x)
    xi = orot.isometrize(dim, c["angles"], c["anis"], x)
    fb = sb(xi)
    fa = np.asarray(fa).reshape(fb.shape if c["gen"] != "IncomprRandMeth" else (dim, -1))
    fb = np.asarray(fb).reshape(fa.shape)
    ctx.event("pipeline_fields_compared")
    ctx.cell(f"srf/{c['gen']}/dim{dim}")
    scale = max(1.0, common.maxabs(fb))
    # the phases k.x are O(|k||x|): rounding of the transformed coordinates propagates linearly
    err = common.maxabs(fa - fb) / scale
    ctx.resolve("srf_twin_rel", err)
    if err > _phase_tol(sa.generator, x):
        ctx.fail({"what": "srf(aniso,x)!=srf(iso,T x)", "gen": c["gen"], "dim": dim},
                 f"max rel diff {err:.3e}", model=c["name"])


def check_pipe_krige(ctx, c):
    dim = c["dim"]
    _nontrivial(ctx, dim, c["angles"], c["anis"])
    a, b = _twin(c, dim)
    rng = np.random.default_rng(c["pseed"])
    n = int(rng.integers(3, 9))
    cp = rng.uniform(-4, 4, size=(dim, n))
    cv = rng.normal(size=n)
    x = np.concatenate([rng.uniform(-5, 5, size=(dim, 15)), cp[:, :2]], axis=1)
    cpi = orot.isometrize(dim, c["angles"], c["anis"], cp)
    xi = orot.isometrize(dim, c["angles"], c["anis"], x)
    kw, call = {}, {}
    if c["variant"] == "ExtDrift":
        kw = dict(ext_drift=rng.normal(size=n))
        call = dict(ext_drift=rng.normal(size=x.shape[1]))
    if c["variant"] == "Simple":
        kw = dict(mean=0.4)
    if c["variant"] == "Fitted":
        # the anisotropy is *fitted* at construction (directional variogram fit): the pipeline has to use the fitted geometry throughout
        if dim == 1 or all(abs(e - 1) < 0.2 for e in c["anis"]):
            ctx.discard("no directional fit in this configuration")
            return
        n = 60
        cp = rng.uniform(-6, 6, size=(dim, n))
        with warnings.catch_warnings():
            warnings.simplefilter("ignore")
            truth = gs.Exponential(dim=dim, var=1.0, len_scale=2.0, anis=[float(v) for v in np.exp(rng.uniform(-1, 1, size=dim - 1))], angles=c["angles"])
            cv = np.asarray(gs.SRF(truth, seed=c["seed"], mode_no=128)(cp))
            start = gs.Exponential(dim=dim, var=0.8, len_scale=1.5, anis=[min(max(v, 0.3), 3.0) for v in c["anis"]], angles=c["angles"])
            try:
                ka = gs.krige.Ordinary(start, cp, cv, fit_variogram=True)
            except (RuntimeError, ValueError):
                ctx.discard("variogram fit failed")
                return
            fm = ka.model
            ang, ani = [float(v) for v in fm.angles], [float(v) for v in fm.anis]
            b = gs.Exponential(dim=dim, var=float(fm.var), len_scale=float(fm.len_scale), nugget=float(fm.nugget))
            x = np.concatenate([rng.uniform(-7, 7, size=(dim, 15)), cp[:, :2]], axis=1)
            cpi, xi = orot.isometrize(dim, ang, ani, cp), orot.isometrize(dim, ang, ani, x)
            kb = gs.krige.Ordinary(b, cpi, cv)
            fa, va = ka(x)
            fb, vb = kb(xi)
        ctx.event("pipeline_fields_compared")
        ctx.cell(f"krige/Fitted/dim{dim}")
        kc_ = np.linalg.cond(b.covariance(np.linalg.norm(cpi[:, :, None] - cpi[:, None, :], axis=0)) + np.eye(n) * b.nugget)
        if kc_ > 1e9:
            ctx.discard("ill-conditioned kriging system")
            return
        err = max(common.maxabs(fa - fb) / max(1.0, common.maxabs(fb)), common.maxabs(va - vb) / max(1.0, float(b.sill)))
        if not err <= 1e-13 * kc_ * 100 + 1e-10:
            ctx.fail({"what": "krige(fitted aniso,x)!=krige(iso,T_fitted x)", "variant": "Fitted", "dim": dim},
                     f"max rel diff {err:.3e}; fitted anis {ani}, angles {ang}")
        return
    cls = getattr(gs.krige, c["variant"])
    if c["variant"] == "Universal":
        # drift functions are functions of the user's coordinates: f(x) for the anisotropic model, f(T^-1 x') for its isotropic twin
        back = orot.aniso_matrix(dim, c["angles"], c["anis"])
        co = rng.normal(size=dim)

        def f_user(*p):
            return sum(ci * np.asarray(pi) for ci, pi in zip(co, p))

        def f_iso(*p):
            return f_user(*(back @ np.asarray(p, dtype=float).reshape(dim, -1)))

        n = max(n, dim + 3)
        cp = rng.uniform(-4, 4, size=(dim, n))
        cv = rng.normal(size=n)
        x = np.concatenate([rng.uniform(-5, 5, size=(dim, 15)), cp[:, :2]], axis=1)
        cpi = orot.isometrize(dim, c["angles"], c["anis"], cp)
        xi = orot.isometrize(dim, c["angles"], c["anis"], x)
        ka = cls(a, cp, cv, [f_user])
        kb = cls(b, cpi, cv, [f_iso])
    else:
        ka = cls(a, cp, cv, **kw)
        kb = cls(b, cpi, cv, **kw)
    if c["cond"]:
        with warnings.catch_warnings():
            warnings.simplefilter("ignore")
            ca = gs.CondSRF(ka, seed=c["seed"], mode_no=48, **({} if a.has_ppf else {"sampling": "mcmc"}))
            cb = gs.CondSRF(kb, seed=c["seed"], mode_no=48, **({} if a.has_ppf else {"sampling": "mcmc"}))
            fa = ca(x, **call)
            fb = cb(xi, **call)
        va = vb = np.zeros(1)
        kvar = np.asarray(kb.krige_var, dtype=float).ravel()
        raw = np.asarray(cb.raw_field, dtype=float).ravel()
        what = "condsrf(aniso,x)!=condsrf(iso,T x)"
        ctx.cell(f"condsrf/{c['variant']}/dim{dim}")
    else:
        fa, va = ka(x, **call)
        fb, vb = kb(xi, **call)
        what = "krige(aniso,x)!=krige(iso,T x)"
        ctx.cell(f"krige/{c['variant']}/dim{dim}")
    ctx.event("pipeline_fields_compared")
    kmat_cond = np.linalg.cond(b.covariance(np.linalg.norm(cpi[:, :, None] - cpi[:, None, :], axis=0)) + np.eye(n) * b.nugget)
    if kmat_cond > 1e9:
        ctx.discard("ill-conditioned kriging system")
        return
    tol = 1e-13 * kmat_cond * 100 + 1e-10
    if c["cond"]:
        tol += _phase_tol(ca.generator, x)
        # field = krige + sqrt(kvar/var)*raw: a rounding dv of kvar moves sqrt(kvar) by min(sqrt(dv), dv/(2 sqrt(kvar)))
        dv = 1e-14 * kmat_cond * float(b.sill) * 10
        with np.errstate(divide="ignore"):
            dsq = np.minimum(np.sqrt(dv), dv / (2 * np.sqrt(np.maximum(kvar, 1e-300))))
        tol += float(np.max(dsq * np.abs(raw))) / math.sqrt(float(b.var))
    scale = max(1.0, common.maxabs(fb))
    err = max(common.maxabs(fa - fb) / scale, common.maxabs(va - vb) / max(1.0, float(b.sill)))
    ctx.resolve("krige_twin_rel", err)
    if err > tol:
        ctx.fail({"what": what, "variant": c["variant"], "dim": dim}, f"max rel diff {err:.3e} (tol {tol:.1e})", model=c["name"])


CHECKS = {
    "live": check_live,
    "rot_matrix": check_rot_matrix,
    "iso": check_iso,
    "axes": check_axes,
    "padding": check_padding,
    "pipe_srf": check_pipe_srf,
    "pipe_krige": check_pipe_krige,
}
