"""C11 – seeded field generation is deterministic and local."""

import copy
import warnings

import numpy as np

from gsverif import common
from gsverif.common import gs

SHARDS = {"quick": 16, "thorough": 16}
TIMEOUT = {"quick": 1200, "thorough": 5400}
REQUIRED_EVENTS = ["locality_comparisons", "history_steps", "fresh_generators_built", "seed_identity_pairs"]
RULE = (
    "generators (RandMeth incl. MCMC sampling, IncomprRandMeth, Fourier) x models x dim 1-3 x seeds (small/large ints, equal "
    "values as distinct objects, numpy ints) x mesh types (structured, unstructured, meshio points/centroids) x permutations, "
    "subsets, splits; histories <= 8 steps of in-place parameter changes (incl. 1-ulp and tiny-magnitude changes), generator "
    "settings, restorations, model re-assignment. Non-trivial = at least one comparison between differently obtained values"
    " Re-seeding with neighbouring seed values."
)
ASSUMPTIONS = ["a generator freshly constructed from a deep copy of the current model with the current settings and seed is the reference"]
LEVEL_TEXT = (
    "Runtime monitoring of related executions: values at probe points are compared bit-for-bit between mesh types, point orders, "
    "batches and storage names, and after every step of a seeded operation history with a freshly constructed generator."
)
TECHNIQUE = "metamorphic runtime comparison + history vs fresh-object comparator (bit-identity oracle)"

SEEDS = [0, 1, 255, 256, 257, 20170519, 2**31 - 1, 2**32 - 2000]
HIST_MODELS = ["Gaussian", "Exponential", "Matern", "Integral", "Stable", "Spherical", "TPLGaussian", "JBessel"]
GENS = ["RandMeth", "IncomprRandMeth", "Fourier"]


def generate(tier, seed):
    rng = np.random.default_rng([seed, 11])
    n = {"quick": 6, "thorough": 150}[tier]
    cases = []
    for rep in range(n):
        for g in GENS:
            for dim in (1, 2, 3):
                if g == "IncomprRandMeth" and dim == 1:
                    continue
                for name in HIST_MODELS:
                    if dim > common.max_valid_dim(name):
                        continue
                    if rng.random() < 0.5:
                        cases.append(("locality", {"gen": g, "dim": dim, "name": name, "seed": int(rng.choice(SEEDS)),
                                                   "cseed": int(rng.integers(1 << 30)), "aniso": bool(rng.random() < 0.6)}))
                    if rng.random() < 0.5:
                        cases.append(("history", {"gen": g, "dim": dim, "name": name, "seed": int(rng.choice(SEEDS)),
                                                  "cseed": int(rng.integers(1 << 30)), "nsteps": int(rng.integers(2, 9))}))
    for rep in range(6 * n):
        cases.append(("seed_identity", {"gen": str(rng.choice(["RandMeth", "Fourier"])), "dim": int(rng.integers(1, 4)),
                                        "seed": min(int(rng.choice(SEEDS[2:])) + int(rng.integers(0, 1000)) * 1000, 2**32 - 5000),
                                        "cseed": int(rng.integers(1 << 30))}))
    return cases


def _gen_kwargs(gen, dim, model, rng):
    if gen == "Fourier":
        return {"period": [float(v) for v in rng.uniform(8, 20, size=dim)], "mode_no": [int(v) for v in rng.choice([4, 6, 8], size=dim)]}
    kw = {"mode_no": int(rng.choice([16, 32, 48]))}
    if gen == "IncomprRandMeth":
        kw["mean_velocity"] = float(rng.choice([1.0, 0.5, -2.0]))
    return kw


def _make_srf(model, gen, seed, gkw):
    with warnings.catch_warnings():
        warnings.simplefilter("ignore")
        return gs.SRF(model, generator=gen, seed=seed, **gkw)


def _model(name, dim, rng, aniso=True, nugget=0.0):
    d = common.draw_model(rng, name, dim, "interior", aniso=aniso, nugget=False)
    d["nugget"] = nugget
    return common.build_model(d), d


def _eq(a, b):
    # NaN-aware: the Fourier generator yields NaN where the numerical spectrum is slightly negative (a C01 matter)
    return np.array_equal(np.asarray(a), np.asarray(b), equal_nan=True)


def check_locality(ctx, c):
    rng = np.random.default_rng(c["cseed"])
    dim, gen = c["dim"], c["gen"]
    model, d = _model(c["name"], dim, rng, aniso=c["aniso"])
    gkw = _gen_kwargs(gen, dim, model, rng)
    srf = _make_srf(model, gen, c["seed"], gkw)
    ctx.cell(f"locality/{gen}/dim{dim}/{'ppf' if model.has_ppf else 'mcmc'}")
    n = 14
    pts = rng.uniform(-6, 6, size=(dim, n))
    vec = gen == "IncomprRandMeth"
    ref = np.array(srf(pts if dim > 1 else pts[0], seed=c["seed"]), copy=True)

    def at(res, idx):
        return np.asarray(res)[..., idx]

    # isometrisation is a BLAS matrix product: the rounding of a column can depend on the number of columns, so the phases
    # k.x of one point may differ by a few ulp between batches; anything beyond that propagated rounding is a violation
    gobj = srf.generator
    kk = getattr(gobj, "_cov_sample", None)
    kk = gobj._modes if kk is None else kk
    nmodes = kk.shape[1]
    tol_abs = (1e-14 + 64 * 2.3e-16 * common.maxabs(kk) * 60.0) * max(1.0, common.maxabs(ref)) * (1.0 if c["aniso"] else 1e-3)

    def cmp(what, got, want):
        ctx.event("locality_comparisons")
        got_, want_ = np.asarray(got, dtype=float), np.asarray(want, dtype=float)
        if got_.shape == want_.shape and common.maxabs(got_ - want_) <= (tol_abs if c["aniso"] else 0.0):
            ctx.resolve("locality_abs_diff", common.maxabs(got_ - want_))
            return True
        if not _eq(got, want):
            diff = common.maxabs(np.asarray(got, dtype=float) - np.asarray(want, dtype=float))
            ctx.fail({"what": what, "gen": gen, "dim": dim}, f"{what}: values differ (max |diff| {diff:.3e}); model {d}")
            return False
        return True

    # permutation of the point order
    perm = rng.permutation(n)
    r = srf(pts[:, perm] if dim > 1 else pts[0, perm], seed=c["seed"])
    if not cmp("depends-on-point-order", at(r, np.argsort(perm)), ref):
        return
    # subsets / batches / additional points
    sub = np.sort(rng.choice(n, size=5, replace=False))
    r = srf(pts[:, sub] if dim > 1 else pts[0, sub], seed=c["seed"])
    if not cmp("depends-on-other-points(subset)", r, at(ref, sub)):
        return
    k = int(rng.integers(1, n - 1))
    a = srf(pts[:, :k] if dim > 1 else pts[0, :k], seed=c["seed"])
    b = srf(pts[:, k:] if dim > 1 else pts[0, k:], seed=c["seed"])
    if not cmp("depends-on-batching", np.concatenate([np.asarray(a), np.asarray(b)], axis=-1), ref):
        return
    extra = np.concatenate([rng.uniform(-50, 50, size=(dim, 4)), pts], axis=1)
    r = srf(extra if dim > 1 else extra[0], seed=c["seed"])
    if not cmp("depends-on-other-points(superset)", at(r, np.arange(4, 4 + n)), ref):
        return
    # storage name and post_process flag (mean 0, no normalizer)
    r = srf(pts if dim > 1 else pts[0], seed=c["seed"], store="some_name")
    if not cmp("depends-on-storage-name", r, ref):
        return
    r = srf(pts if dim > 1 else pts[0], seed=c["seed"], store=False)
    if not cmp("depends-on-store-flag", r, ref):
        return
    # what was generated before (nugget-free): other seed and other positions in between
    srf(rng.uniform(-3, 3, size=(dim, 3)) if dim > 1 else rng.uniform(-3, 3, size=3), seed=c["seed"] + 7)
    r = srf(pts if dim > 1 else pts[0], seed=c["seed"])
    if not cmp("depends-on-previous-generation", r, ref):
        return
    # nearly identical positions in a second call on the same object (coordinates with a large offset shifted by
    # a few units, and coordinates near zero shifted by less than 1e-8): the value is a function of the location only
    for off, shift in ((4.5e5, 1.7), (0.0, 4e-9)):
        base = pts + off if off else pts * 1e-9
        a0 = srf(base if dim > 1 else base[0], seed=c["seed"])
        moved = base + shift
        got = np.array(srf(moved if dim > 1 else moved[0], seed=c["seed"]), copy=True)
        fresh = _make_srf(copy.deepcopy(model), gen, c["seed"], gkw)
        want = np.asarray(fresh(moved if dim > 1 else moved[0]))
        ctx.event("locality_comparisons")
        tol_big = (1e-12 + 64 * 2.3e-16 * common.maxabs(kk) * (abs(off) + 60.0)) * max(1.0, common.maxabs(want))
        if not np.all(np.isfinite(want)):
            continue  # NaN field of the Fourier generator (numerically negative spectrum): nothing to compare
        if not common.maxabs(got - want) <= tol_big:
            ctx.fail({"what": "depends-on-previous-positions(nearly-equal)", "gen": gen, "dim": dim, "offset": "large" if off else "zero"},
                     f"second call at positions shifted by {shift} (offset {off}): max diff to a fresh generator {common.maxabs(got - want):.3e}")
            return
    # structured mesh == point list of the grid
    axes = [np.sort(rng.uniform(-5, 5, size=int(rng.integers(2, 5)))) for _ in range(dim)]
    grid = np.array(np.meshgrid(*axes, indexing="ij")).reshape(dim, -1)
    rs = np.asarray(srf.structured(axes if dim > 1 else axes[0], seed=c["seed"]))
    ru = np.asarray(srf.unstructured(grid if dim > 1 else grid[0], seed=c["seed"]))
    rs_flat = rs.reshape((dim, -1)) if vec else rs.reshape(-1)
    if not cmp("structured!=unstructured", rs_flat, ru):
        return
    # and a structured call with another seed in between does not matter
    # meshio mesh (points and centroids)
    if dim >= 2:
        import meshio

        npnt = 10
        mp = rng.uniform(-5, 5, size=(npnt, dim))
        if dim == 2:
            cells = [("triangle", rng.integers(0, npnt, size=(4, 3))), ("quad", rng.integers(0, npnt, size=(3, 4))), ("triangle", rng.integers(0, npnt, size=(2, 3)))]
        else:
            cells = [("tetra", rng.integers(0, npnt, size=(4, 4))), ("hexahedron", rng.integers(0, npnt, size=(2, 8))), ("tetra", rng.integers(0, npnt, size=(3, 4)))]
        mesh = meshio.Mesh(mp, cells)
        rp = np.asarray(srf.mesh(mesh, points="points", seed=c["seed"], name="p"))
        ru = np.asarray(srf.unstructured(mp.T, seed=c["seed"]))
        if not cmp("mesh(points)!=unstructured", rp, ru):
            return
        stored = np.asarray(mesh.point_data["p"])
        if not cmp("mesh.point_data!=returned", stored.T if vec else stored, ru):
            return
        rc = np.asarray(srf.mesh(mesh, points="centroids", seed=c["seed"], name="c"))
        cents = np.concatenate([np.mean(mp[cb.data], axis=1) for cb in mesh.cells], axis=0)
        ru = np.asarray(srf.unstructured(cents.T, seed=c["seed"]))
        if not cmp("mesh(centroids)!=unstructured", rc, ru):
            return
        # values written per cell block belong to that block's cells
        off = 0
        for bi, cb in enumerate(mesh.cells):
            blk = np.asarray(mesh.cell_data["c"][bi])
            want = ru[..., off:off + len(cb.data)]
            if not cmp("mesh.cell_data-block!=values-at-its-centroids", blk.T if vec else blk, want):
                return
            off += len(cb.data)


def _apply_step(rng, srf, gen, dim, state):
    """Apply one history operation in place; returns a description."""
    model = srf.model
    ops = ["var", "len_scale", "len_scale_list", "anis", "angles", "opt", "rescale", "tiny", "small_magnitude", "restore",
           "mode_no", "seed", "new_model", "call_elsewhere"]
    if gen == "Fourier":
        ops += ["period", "period"]
    if gen == "RandMeth":
        ops += ["sampling"]
    if gen != "Fourier":
        ops += ["reset_seed_kept", "mode_no_down"]
    op = str(rng.choice(ops))
    if op == "var":
        state["old"] = ("var", model.var)
        model.var = round(float(rng.uniform(0.2, 4)), 4)
    elif op == "len_scale":
        state["old"] = ("len_scale", model.len_scale)
        model.len_scale = round(float(rng.uniform(0.5, 6)), 4)
    elif op == "len_scale_list" and dim > 1:
        model.len_scale = [round(float(v), 3) for v in rng.uniform(0.5, 6, size=dim)]
    elif op == "anis" and dim > 1:
        state["old"] = ("anis", list(model.anis))
        model.anis = [round(float(v), 3) for v in np.exp(rng.uniform(-1, 1, size=dim - 1))]
    elif op == "angles" and dim > 1:
        model.angles = [round(float(v), 3) for v in rng.uniform(-3, 3, size=dim * (dim - 1) // 2)]
    elif op == "opt" and model.opt_arg:
        o = str(rng.choice(model.opt_arg))
        newo = common.draw_opt(rng, model.name, dim, "interior")
        if o in newo:
            state["old"] = (o, getattr(model, o))
            setattr(model, o, newo[o])
    elif op == "rescale":
        model.rescale = round(float(rng.uniform(0.5, 2.0)), 3)
    elif op == "tiny":
        which = str(rng.choice(["var", "len_scale"]))
        cur = float(getattr(model, which))
        fac = float(rng.choice([1 + 2.3e-16, 1 + 1e-12, 1 + 1e-9, 1 + 1e-6, 1 - 1e-7]))
        setattr(model, which, cur * fac)
        op = f"tiny({which}*{fac!r})"
    elif op == "small_magnitude":
        v = float(rng.choice([1e-9, 4e-9, 1e-12, 3e-12]))
        model.var = v
        op = f"small_magnitude(var={v!r})"
    elif op == "restore" and state.get("old"):
        k, v = state["old"]
        setattr(model, k, v)
        op = f"restore({k})"
    elif op == "reset_seed_kept":
        # documented: reset_seed() / reset_seed(np.nan) recalculates the random values with the present seed
        if rng.random() < 0.5:
            srf.generator.reset_seed()
        else:
            srf.generator.reset_seed(np.nan)
    elif op == "mode_no_down":
        # a smaller number of modes on a live generator (from above 100, where the length of MCMC chains depends on it)
        srf.generator.mode_no = int(rng.choice([130, 160]))
        srf.generator.mode_no = int(rng.choice([101, 110, 120]))
    elif op == "mode_no":
        if gen == "Fourier":
            state["mode_no"] = [int(v) for v in rng.choice([4, 6, 8], size=dim)]
            srf.generator.mode_no = state["mode_no"]
        else:
            srf.generator.mode_no = int(rng.choice([8, 16, 24, 40]))
    elif op == "seed":
        if rng.random() < 0.5:
            # re-seeding with a neighbouring value (relative change down to 2e-10 for large seeds)
            state["seed"] = int(min(max(state["seed"] + int(rng.choice([-3, -1, 1, 2])), 0), 2**32 - 1))
        else:
            state["seed"] = int(rng.choice(SEEDS)) + int(rng.integers(0, 5))
        if rng.random() < 0.5:
            srf.generator.seed = state["seed"]
            op = "seed(setter)"
        else:
            state["seed_by_call"] = True
            op = "seed(call)"
    elif op == "period":
        srf.generator.period = [float(v) for v in rng.uniform(8, 20, size=dim)]
    elif op == "sampling":
        srf.generator.sampling = str(rng.choice(["auto", "inversion", "mcmc"])) if srf.model.has_ppf else "mcmc"
        # the documented effect of the sampling setter shows after the next (re)seeding
        srf.generator.reset_seed(srf.generator.seed)
    elif op == "new_model":
        name = str(rng.choice(["Gaussian", "Exponential"]))
        kw = dict(dim=dim, var=round(float(rng.uniform(0.3, 2)), 3), len_scale=round(float(rng.uniform(0.5, 4)), 3))
        if dim > 1 and rng.random() < 0.5:
            kw["anis"] = [round(float(v), 3) for v in np.exp(rng.uniform(-1, 1, size=dim - 1))]
        srf.model = getattr(gs, name)(**kw)
    elif op == "call_elsewhere":
        srf(rng.uniform(-3, 3, size=(dim, 3)) if dim > 1 else rng.uniform(-3, 3, size=3))
    else:
        op = op + "(skipped)"
    return op


def check_history(ctx, c):
    rng = np.random.default_rng(c["cseed"])
    dim, gen = c["dim"], c["gen"]
    model, d = _model(c["name"], dim, rng, aniso=True)
    gkw = _gen_kwargs(gen, dim, model, rng)
    srf = _make_srf(model, gen, c["seed"], gkw)
    probe = rng.uniform(-6, 6, size=(dim, 9))
    probe_arg = probe if dim > 1 else probe[0]
    state = {"seed": c["seed"]}
    hist = []
    ctx.cell(f"history/{gen}/dim{dim}/{'ppf' if model.has_ppf else 'mcmc'}")
    for step in range(c["nsteps"]):
        with warnings.catch_warnings():
            warnings.simplefilter("ignore")
            op = _apply_step(rng, srf, gen, dim, state)
            hist.append(op)
            ctx.event("history_steps")
            if state.pop("seed_by_call", False):
                got = np.array(srf(probe_arg, seed=state["seed"]), copy=True)
            else:
                got = np.array(srf(probe_arg), copy=True)
            # fresh generator with the current settings
            g = srf.generator
            if gen == "Fourier":
                fkw = {"period": list(g.period), "mode_no": list(state.get("mode_no", gkw["mode_no"]))}
            else:
                fkw = {"mode_no": g.mode_no, "sampling": g.sampling}
                if gen == "IncomprRandMeth":
                    fkw["mean_velocity"] = g.mean_u
            fresh = _make_srf(copy.deepcopy(srf.model), gen, state["seed"], fkw)
            ctx.event("fresh_generators_built")
            want = np.asarray(fresh(probe_arg))
        if gen == "Fourier" and list(fresh.generator.mode_no) != list(g.mode_no):
            # np.arange(-n/2*dk, n/2*dk, dk) can yield n+1 modes; a later period change then starts from that odd count
            ctx.discard("fourier: arange rounding produced an extra mode")
            return
        if not _eq(got, want):
            diff = common.maxabs(got - want)
            scale = max(common.maxabs(want), 1e-300)
            ctx.fail({"what": "history!=fresh-generator", "gen": gen, "dim": dim, "op": op.split("(")[0]},
                     f"after {hist}: max |diff| = {diff:.3e} (relative {diff/scale:.2e}); start model {d}")
            return


def check_seed_identity(ctx, c):
    rng = np.random.default_rng(c["cseed"])
    dim, gen = c["dim"], c["gen"]
    model, d = _model("Gaussian", dim, rng, aniso=False, nugget=0.3)
    gkw = _gen_kwargs(gen, dim, model, rng)
    pts = rng.uniform(-5, 5, size=(dim, 7))
    arg = pts if dim > 1 else pts[0]
    s = c["seed"]
    ctx.cell(f"seed_identity/{gen}")
    variants = {"same-object": lambda: s, "distinct-int": lambda: int(str(s)), "numpy-int64": lambda: np.int64(s),
                "float-free-arith": lambda: (s + 1) - 1}
    results = {}
    for nm, mk in variants.items():
        srf = _make_srf(copy.deepcopy(model), gen, s, gkw)
        first = np.array(srf(arg, seed=mk()), copy=True)
        second = np.array(srf(arg, seed=mk()), copy=True)
        third = np.array(srf(arg), copy=True)
        results[nm] = (first, second, third)
    base = results["same-object"]
    for nm, res in results.items():
        ctx.event("seed_identity_pairs")
        for i, (a, b) in enumerate(zip(res, base)):
            if not _eq(a, b):
                ctx.fail({"what": "equal-seed-values-give-different-results", "gen": gen, "variant": nm, "call": i},
                         f"seed {s} passed as {nm}: call #{i} differs from the same history with the identical object "
                         f"(max diff {common.maxabs(a-b):.3e})")
                return
    # equal call histories on two fresh objects give equal nugget noise
    a = _make_srf(copy.deepcopy(model), gen, s, gkw)
    b = _make_srf(copy.deepcopy(model), gen, int(str(s)), gkw)
    ra = [np.array(a(arg), copy=True), np.array(a(arg, seed=s + 1), copy=True), np.array(a(arg), copy=True)]
    rb = [np.array(b(arg), copy=True), np.array(b(arg, seed=int(str(s + 1))), copy=True), np.array(b(arg), copy=True)]
    for i, (x, y) in enumerate(zip(ra, rb)):
        if not _eq(x, y):
            ctx.fail({"what": "equal-histories-give-different-noise", "gen": gen, "call": i}, f"call #{i} differs")
            return


CHECKS = {"locality": check_locality, "history": check_history, "seed_identity": check_seed_identity}
