"""C16 – vector fields from isotropic models are incompressible."""

import math
import warnings

import numpy as np

from gsverif import common
from gsverif.common import gs

SHARDS = {"quick": 16, "thorough": 16}
TIMEOUT = {"quick": 1200, "thorough": 5400}
REQUIRED_EVENTS = ["divergence_points", "formula_comparisons", "projector_samples", "ensemble_tests"]
RULE = (
    "isotropic models of all classes valid in dim 2/3 x mean velocities {0.3, 1, -2, 0} x mode numbers {64, 1000} x seeds x "
    "{1, dim, dim+1, 7} off-grid evaluation points; histories re-assigning the mean velocity / model on a live generator; every case non-trivial"
    " Coordinate units 1e-4, 1, 1e4 (len_scale and positions scaled together); mode-number / mean-velocity / model histories."
)
ASSUMPTIONS = [
    "white box: the generator's samples (wave vectors, amplitudes) are tapped and the field recomputed with the oracle projector "
    "p(k) = e1 - k k1/|k|^2, for which k.p(k) = 0 holds identically",
    "Hoeffding bound for the bounded statistic p_i(k)^2 (false-alarm budget 1e-9 per run), 7-sigma tests for ensemble means/variances",
]
LEVEL_TEXT = (
    "Runtime monitoring: the divergence of generated vector fields is measured by Richardson-extrapolated central differences at "
    "off-grid points, the output is recomputed from the tapped samples with an oracle solenoidal projector, and ensemble mean and "
    "component-variance fractions are tested with non-asymptotic / 7-sigma bounds."
)
TECHNIQUE = "runtime divergence monitor (finite differences) + tapped-sample oracle recomputation + concentration-bound ensemble tests"

FRAC = {2: [3 / 8, 1 / 8], 3: [8 / 15, 1 / 15, 1 / 15]}


def generate(tier, seed):
    rng = np.random.default_rng([seed, 16])
    n = {"quick": 3, "thorough": 12}[tier]
    cases = []
    for rep in range(n):
        for name in common.MODELS:
            for dim in (2, 3):
                if dim > common.max_valid_dim(name):
                    continue
                cases.append(("field", {"name": name, "dim": dim, "mean_u": float(rng.choice([0.3, 1.0, -2.0, 0.0])), "mode_no": int(rng.choice([64, 1000])),
                                        "npts": int(rng.choice([1, dim, dim + 1, 7])), "len_unit": float(rng.choice([1.0, 1.0, 1e-4, 1e4])),
                                        "threads": [None, None, 2, 3, 5][int(rng.integers(0, 5))],
                                        "seed": int(rng.integers(1, 1 << 24)), "cseed": int(rng.integers(1 << 30)),
                                        "history": str(rng.choice(["none", "mean_u", "model", "mode_no"]))}))
    for dim in (2, 3):
        for name in ("Gaussian", "Exponential", "TPLGaussian", "Matern"):
            cases.append(("ensemble", {"name": name, "dim": dim, "mean_u": float(rng.choice([0.3, 1.0, -2.0])), "cseed": int(rng.integers(1 << 30)),
                                       "nseeds": {"quick": 300, "thorough": 1500}[tier]}))
    return cases


def _model(c, rng):
    d = common.draw_model(rng, c["name"], c["dim"], "interior", aniso=False, nugget=False)
    d["nugget"] = 0.0
    d["len_scale"] = float(d["len_scale"]) * float(c.get("len_unit", 1.0))  # the coordinate unit is the user's (mm ... km)
    if c["name"] == "JBessel" and "opt" in d:
        d["opt"]["nu"] = max(d["opt"]["nu"], c["dim"] / 2 - 1 + 0.3)
    return common.build_model(d), d


def _srf(model, c, seed, mode_no=None, mean_u=None):
    kw = dict(generator="VectorField", mean_velocity=c["mean_u"] if mean_u is None else mean_u, mode_no=mode_no or c.get("mode_no", 64), seed=seed)
    if not model.has_ppf:
        kw["sampling"] = "mcmc"
    with warnings.catch_warnings():
        warnings.simplefilter("ignore")
        return gs.SRF(model, **kw)


def _oracle_field(gen, model, x):
    k = np.asarray(gen._cov_sample, dtype=float)
    z1, z2 = np.asarray(gen._z_1, dtype=float), np.asarray(gen._z_2, dtype=float)
    dim, n = k.shape
    e1 = np.zeros((dim, 1))
    e1[0] = 1.0
    k2 = np.sum(k * k, axis=0)
    proj = e1 - k * k[0][None, :] / k2[None, :]
    phase = k.T @ x  # (N, npts)
    amp = z1[:, None] * np.cos(phase) + z2[:, None] * np.sin(phase)
    summed = proj @ amp
    mu = float(gen.mean_u)
    return mu * e1 + mu * math.sqrt(float(model.var) / n) * summed, proj, k


def check_field(ctx, c):
    rng = np.random.default_rng(c["cseed"])
    dim = c["dim"]
    model, d = _model(c, rng)
    srf = _srf(model, c, c["seed"])
    mean_u = c["mean_u"]
    hist = c["history"]
    with warnings.catch_warnings():
        warnings.simplefilter("ignore")
        if hist != "none":
            srf(rng.uniform(-3, 3, size=(dim, 3)) * float(c.get("len_unit", 1.0)))  # use the live object first
        if hist == "mean_u":
            mean_u = float(rng.choice([0.5, -1.5, 3.0, 0.0]))
            srf.generator.mean_u = mean_u
        elif hist == "model":
            srf.model.var = round(float(rng.uniform(0.3, 3)), 3)
            srf.model.len_scale = round(float(rng.uniform(0.5, 5)), 3) * float(c.get("len_unit", 1.0))
        elif hist == "mode_no":
            srf.generator.mode_no = int(rng.choice([32, 128]))
    ctx.cell(f"field/{c['name']}/dim{dim}/history={hist}")
    npts = int(c.get("npts", 7))  # incl. a single point and exactly `dim` points (square position arrays)
    unit = float(c.get("len_unit", 1.0))
    x = (rng.uniform(-6, 6, size=(dim, npts)) + 1e-3 * rng.random()) * unit
    from gstools import config

    config.NUM_THREADS = c.get("threads")  # the thread count is the user's setting; the field must not depend on it
    try:
        with warnings.catch_warnings():
            warnings.simplefilter("ignore")
            u = np.asarray(srf(x), dtype=float)
            # the generator itself, called the way CondSRF and users of the low-level API call it
            u_gen = np.asarray(srf.generator(np.asarray(srf.model.isometrize(x)), add_nugget=False), dtype=float)
    finally:
        config.NUM_THREADS = None
    gen = srf.generator
    mech = {"model": c["name"], "dim": dim, "history": hist}
    if u.shape != (dim, npts):
        ctx.fail(dict(mech, what="vector-field-shape"), f"shape {u.shape}")
        return
    # ---- white box: output == oracle sum with the solenoidal projector -----------------------------------
    if not abs(float(gen.mean_u) - mean_u) <= 0:
        ctx.fail(dict(mech, what="mean_u-not-applied"), f"generator.mean_u = {gen.mean_u}, assigned {mean_u}")
        return
    want, proj, k = _oracle_field(gen, srf.model, x)
    kmax = common.maxabs(k)
    ctx.event("formula_comparisons", u.size)
    scale = max(1.0, common.maxabs(want))
    err = common.maxabs(u - want) / scale
    tol = 1e-12 + 200 * 2.3e-16 * kmax * max(common.maxabs(x), 1e-300) * math.sqrt(k.shape[1])
    ctx.resolve("formula_rel", err)
    if not err <= tol:
        ctx.fail(dict(mech, what="field!=mean*e1+mean*sqrt(var/N)*sum p(k)(Z1 cos+Z2 sin)"),
                 f"{c['name']} dim {dim} mean_u {mean_u} N {k.shape[1]}: max rel deviation {err:.3e} (tol {tol:.1e})")
        return
    if u_gen.shape != want.shape or not common.maxabs(u_gen - want) / scale <= tol:
        ctx.fail(dict(mech, what="generator(pos, add_nugget=False)!=mean*e1+fluctuations"),
                 f"{c['name']} dim {dim}: direct generator call differs from the formula by {common.maxabs(u_gen - want) / scale if u_gen.shape == want.shape else u_gen.shape} (threads {c.get('threads')})")
        return
    kp = np.abs(np.sum(k * proj, axis=0)) / np.maximum(np.linalg.norm(k, axis=0), 1e-300)
    if np.max(kp) > 1e-12:
        ctx.fail(dict(mech, what="oracle-projector"), "k.p(k) != 0")
        return
    # ---- black box: divergence by Richardson-extrapolated central differences -----------------------------
    # keep the differences well resolved: step relative to the smallest wave length present
    lam = 2 * math.pi / max(kmax, 1e-12)
    h = min(1e-2 * lam, 1e-3 * float(srf.model.len_scale))
    if kmax * common.maxabs(x) > 1e7:
        ctx.event("divergence_skipped(runaway wave numbers)")
    else:
        def grad(hh):
            g = np.zeros((dim, dim, x.shape[1]))
            for j in range(dim):
                e = np.zeros((dim, 1))
                e[j] = hh
                with warnings.catch_warnings():
                    warnings.simplefilter("ignore")
                    g[:, j] = (np.asarray(srf(x + e)) - np.asarray(srf(x - e))) / (2 * hh)
            return g

        g1, g2 = grad(h), grad(h / 2)
        g = (4 * g2 - g1) / 3
        div = np.sum(np.array([g[i, i] for i in range(dim)]), axis=0)
        gnorm = np.sqrt(np.sum(g * g, axis=(0, 1)))
        ctx.event("divergence_points", x.shape[1])
        # rounding of the differences: eps * |u| / h per term
        noise = 50 * 2.3e-16 * max(1.0, common.maxabs(u)) / h * dim
        rel = float(np.max(np.abs(div) / np.maximum(gnorm, 1e-300)))
        ctx.resolve("divergence_over_gradient", rel)
        if not np.all(np.abs(div) <= 1e-6 * gnorm + noise):
            i = int(np.argmax(np.abs(div) - 1e-6 * gnorm))
            ctx.fail(dict(mech, what="divergence!=0"), f"{c['name']} dim {dim}: div u = {div[i]:.3e}, |grad u| = {gnorm[i]:.3e} (h={h:.2e})")
            return


def check_ensemble(ctx, c):
    rng = np.random.default_rng(c["cseed"])
    dim = c["dim"]
    model, d = _model(c, rng)
    ns, N = c["nseeds"], 64
    x = rng.uniform(-4, 4, size=(dim, 3))
    vals = np.empty((ns, dim, 3))
    p2 = np.zeros(dim)
    cnt = 0
    srf = _srf(model, dict(c, mode_no=N), 1)
    for s in range(ns):
        with warnings.catch_warnings():
            warnings.simplefilter("ignore")
            vals[s] = srf(x, seed=int(rng.integers(1, 1 << 30)))
        k = np.asarray(srf.generator._cov_sample)
        k2 = np.sum(k * k, axis=0)
        e1 = np.zeros((dim, 1))
        e1[0] = 1.0
        proj = e1 - k * k[0][None, :] / k2[None, :]
        p2 += np.sum(proj**2, axis=1)
        cnt += k.shape[1]
    ctx.cell(f"ensemble/{c['name']}/dim{dim}")
    mu, var = c["mean_u"], float(model.var)
    mech = {"model": c["name"], "dim": dim}
    # (a) projector fractions: Hoeffding for the bounded statistic p_i^2 in [0, 1]
    ctx.event("projector_samples", cnt)
    alpha = 1e-9 / 20
    bound = math.sqrt(math.log(2 / alpha) / (2 * cnt))
    ctx.resolve("projector_fraction_resolution", bound)
    for i in range(dim):
        got = p2[i] / cnt
        if not abs(got - FRAC[dim][i]) <= bound:
            ctx.fail(dict(mech, what="component-variance-fractions", comp=i), f"E[p_{i}^2] = {got:.5f} expected {FRAC[dim][i]:.5f} (+-{bound:.5f}, {cnt} samples)")
            return
    # (b) mean = (mean_u, 0[, 0]) and component variances mean_u^2 var frac_i: 7-sigma tests over independent seeds
    ctx.event("ensemble_tests", 2 * dim * 3)
    for i in range(dim):
        for p in range(3):
            v = vals[:, i, p]
            want_m = mu if i == 0 else 0.0
            sd = math.sqrt(mu * mu * var * FRAC[dim][i])
            se = sd / math.sqrt(ns)
            if not abs(float(np.mean(v)) - want_m) <= 7 * se:
                ctx.fail(dict(mech, what="ensemble-mean", comp=i), f"mean of component {i} = {np.mean(v):.4f}, expected {want_m} (+-{7*se:.4f})")
                return
            # variance of a sum of N iid bounded-fourth-moment terms: relative standard error ~ sqrt((kurt-1)/ns), kurtosis <= 3 + 3/N * c
            rel_se = math.sqrt(2.5 / ns)
            sv = float(np.var(v, ddof=1))
            if not abs(sv - sd * sd) <= 7 * rel_se * sd * sd:
                ctx.fail(dict(mech, what="ensemble-variance", comp=i), f"variance of component {i} = {sv:.4f}, expected {sd*sd:.4f} (+-{7*rel_se*sd*sd:.4f})")
                return


CHECKS = {"field": check_field, "ensemble": check_ensemble}
