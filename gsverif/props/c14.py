"""C14 – model parameters form a consistent state independent of how it was reached."""

import math
import warnings

import numpy as np

from gsverif import common
from gsverif.common import gs
from gsverif.oracles import rot as orot

SHARDS = {"quick": 16, "thorough": 16}
TIMEOUT = {"quick": 1200, "thorough": 5400}
REQUIRED_EVENTS = ["ops_applied", "fresh_comparisons", "invariant_evaluations", "rejections_checked", "constructions_compared"]
MAX_DISCARD_FRAC = 0.3
RULE = (
    "seeded setter histories (<= 6 operations from var, var_raw, len_scale scalar/list, anis, angles, nugget, optional "
    "arguments, rescale, dim, integral_scale, set_arg_bounds; in-range, boundary and out-of-range values) on 17 classes x "
    "plain/temporal/lat-lon/lat-lon+temporal; non-trivial = at least one accepted operation changed the model"
    " Derived quantities (integral scales, len_scale_vec, sill, percentile scale, spectrum, spatial covariance) are read between operations and compared with a fresh model; one-element lists; construction routes (integral_scale, lists, var_raw) against setter routes."
)
ASSUMPTIONS = [
    "the shadow state in this file encodes the documented coupling rules (length-scale list => anis, TPL variance follows "
    "intensity, lat-lon keeps space isotropic, padding rules of anis/angles)",
    "icontract 2.7 evaluates the class invariant after public methods / property setters",
]
LEVEL_TEXT = (
    "Runtime monitoring of operation histories: after every setter operation the live model is compared with an independent "
    "shadow state and with a model freshly constructed from its public values; an icontract class invariant on CovModel "
    "checks derived quantities and bounds after every public call."
)
TECHNIQUE = "history vs fresh-object comparator + shadow-state oracle + icontract class invariant on the real classes"

_INV = {"n": 0, "fail": None}


class InvariantBroken(Exception):
    pass


def _model_consistent(self):
    """Class invariant: derived quantities and bounds (evaluated only on fully constructed models)."""
    if not hasattr(self, "_prec"):
        return True
    _INV["n"] += 1
    try:
        dim = self.dim
        ok = True
        msg = []
        if len(self.anis) != dim - 1:
            msg.append(f"len(anis)={len(self.anis)} dim={dim}")
        if len(self.angles) != dim * (dim - 1) // 2:
            msg.append(f"len(angles)={len(self.angles)} dim={dim}")
        if not np.all(np.asarray(self.anis) > 0):
            msg.append(f"anis<=0: {self.anis}")
        if not (self.sill == self.var + self.nugget):
            msg.append("sill != var+nugget")
        fd = 2 + int(self.temporal) if self.latlon else dim
        sd = 2 if self.latlon else dim - int(self.temporal)
        if self.field_dim != fd or self.spatial_dim != sd:
            msg.append(f"field_dim/spatial_dim {self.field_dim}/{self.spatial_dim} expected {fd}/{sd}")
        lv = self.len_scale_vec
        want = np.concatenate(([1.0], np.asarray(self.anis, dtype=float))) * self.len_scale
        if len(lv) != dim or np.max(np.abs(lv - want)) > 1e-12 * abs(self.len_scale):
            msg.append("len_scale_vec")
        if self.latlon and not np.all(np.asarray(self.anis)[:2] == 1.0):
            msg.append(f"latlon space not isotropic: {self.anis}")
        if self.latlon and np.any(np.asarray(self.angles) != 0.0):
            msg.append("latlon angles != 0")
        if self.temporal and dim > 1:
            na_sp = (dim - 1) * (dim - 2) // 2
            if np.any(np.asarray(self.angles)[na_sp:] != 0.0):
                msg.append(f"space-time rotation: {self.angles}")
        from gstools.covmodel.tools import check_arg_in_bounds

        for arg in self.arg_bounds:
            if check_arg_in_bounds(self, arg) != 0:
                msg.append(f"{arg}={getattr(self, arg)} outside {self.arg_bounds[arg]}")
        if msg:
            _INV["fail"] = "; ".join(msg)
    except Exception as exc:  # the monitor itself must never break the program under observation
        _INV["fail"] = f"invariant evaluation raised {type(exc).__name__}: {exc}"
    return True


_INSTALLED = False


def _install_invariant():
    global _INSTALLED
    if _INSTALLED:
        return
    import icontract

    icontract.invariant(_model_consistent, error=InvariantBroken)(gs.CovModel)
    _INSTALLED = True


CONFIGS = ["plain", "temporal", "latlon", "latlon_temporal"]


def generate(tier, seed):
    rng = np.random.default_rng([seed, 14])
    n = {"quick": 30, "thorough": 300}[tier]
    cases = []
    for rep in range(n):
        for name in common.MODELS:
            for cfg in CONFIGS:
                if cfg.startswith("latlon") and common.max_valid_dim(name) < 3:
                    continue
                sd = int(rng.integers(1, 4)) if cfg in ("plain", "temporal") else 2
                cases.append(("history", {"name": name, "cfg": cfg, "spatial_dim": sd, "hseed": int(rng.integers(1 << 30)),
                                          "nops": int(rng.integers(2, 7))}))
    for name in common.TPL:
        for rep in range(max(2, n // 4)):
            cases.append(("coupled_bounds", {"name": name, "dim": int(rng.integers(1, 4)), "kseed": int(rng.integers(1 << 30))}))
    for name in common.MODELS:
        for rep in range(max(1, n // 6)):
            cases.append(("construct", {"name": name, "dim": int(rng.integers(1, 4)), "kseed": int(rng.integers(1 << 30))}))
    for name in common.MODELS:
        for rep in range(max(1, n // 4)):
            cases.append(("bounds", {"name": name, "dim": int(rng.integers(1, 4)), "bseed": int(rng.integers(1 << 30))}))
    return cases


# ---------------------------------------------------------------------------------------------
# shadow state
# ---------------------------------------------------------------------------------------------


class Shadow:
    def __init__(self, name, cfg, spatial_dim, opt, rng):
        self.name = name
        self.latlon = cfg.startswith("latlon")
        self.temporal = cfg.endswith("temporal")
        self.dim = (3 if self.latlon else spatial_dim) + int(self.temporal)
        self.var_raw = None
        self.var = round(float(rng.uniform(0.4, 3.0)), 3)
        self.len_scale = round(float(rng.uniform(0.5, 6.0)), 3)
        self.nugget = float(rng.choice([0.0, 0.25]))
        self.rescale = None
        self.opt = dict(opt)
        self.anis = [1.0] * (self.dim - 1)
        self.angles = [0.0] * (self.dim * (self.dim - 1) // 2)
        self.geo_scale = float(rng.choice([1.0, 6371.0])) if self.latlon else 1.0

    def n_spatial_angles(self):
        d = self.dim - int(self.temporal)
        return d * (d - 1) // 2

    def fix_anis(self, anis):
        a = orot.pad_anis(self.dim, anis) if self.dim > 1 else []
        if self.latlon:
            a[:2] = [1.0, 1.0]
        return a

    def fix_angles(self, angles):
        if self.latlon:
            return [0.0] * (self.dim * (self.dim - 1) // 2)
        a = orot.pad_angles(self.dim, angles)
        if self.temporal:
            k = self.n_spatial_angles()
            a = a[:k] + [0.0] * (len(a) - k)
        return a

    def var_factor(self):
        if self.name in common.TPL:
            s = self.rescale if self.rescale is not None else 1.0
            hh = 2 * self.opt["hurst"]
            up, low = (self.opt["len_low"] + self.len_scale) / s, self.opt["len_low"] / s
            if up < 0 or low < 0 or hh <= 0:
                return float("nan")
            return (up**hh - low**hh) / hh
        return 1.0

    def kwargs(self):
        kw = dict(var=self.var, len_scale=self.len_scale, nugget=self.nugget, latlon=self.latlon, temporal=self.temporal)
        if self.latlon:
            kw["geo_scale"] = self.geo_scale
        else:
            kw["dim"] = self.dim
        kw.update(self.opt)
        return kw


def _default_opt(name, dim):
    from gsverif.oracles import cov as ocov

    return ocov.default_opt(name, dim)


def _build(name, kw):
    with warnings.catch_warnings():
        warnings.simplefilter("ignore")
        return getattr(gs, name)(**kw)


def _public_kwargs(model):
    kw = dict(var=float(model.var), len_scale=float(model.len_scale), nugget=float(model.nugget),
              anis=[float(a) for a in model.anis], angles=[float(a) for a in model.angles], rescale=float(model.rescale),
              latlon=model.latlon, temporal=model.temporal)
    if model.latlon:
        kw["geo_scale"] = model.geo_scale
    else:
        kw["dim"] = model.dim
    for o in model.opt_arg:
        kw[o] = float(getattr(model, o))
    return kw


def _state(model):
    st = {"var": float(model.var), "var_raw": float(model.var_raw), "len_scale": float(model.len_scale), "nugget": float(model.nugget),
          "anis": [float(a) for a in model.anis], "angles": [float(a) for a in model.angles], "rescale": float(model.rescale),
          "dim": int(model.dim)}
    for o in model.opt_arg:
        st[o] = float(getattr(model, o))
    return st


def _derived(model):
    """Public derived quantities (anything a cache could hold): read on the live model at every step."""
    out = {}
    with warnings.catch_warnings():
        warnings.simplefilter("ignore")
        with np.errstate(all="ignore"):
            out["integral_scale"] = float(model.integral_scale)
            out["integral_scale_vec"] = [float(v) for v in np.atleast_1d(model.integral_scale_vec)]
            out["len_scale_vec"] = [float(v) for v in np.atleast_1d(model.len_scale_vec)]
            out["len_rescaled"] = float(model.len_rescaled)
            out["sill"] = float(model.sill)
            out["is_isotropic"] = float(bool(model.is_isotropic))
            out["percentile_scale(0.5)"] = float(model.percentile_scale(0.5))
            out["spectral_density(1/l)"] = float(np.asarray(model.spectral_density(np.array([1.0 / float(model.len_scale)])))[0])
            x = np.full((int(model.dim), 1), 0.37 * float(model.len_scale))
            out["cov_spatial"] = float(np.asarray(model.cov_spatial(x if not model.latlon else x[: model.field_dim]))[0])
    return out


def _close(a, b, rel=1e-13):
    a, b = np.asarray(a, dtype=float), np.asarray(b, dtype=float)
    if a.shape != b.shape:
        return False
    return bool(np.all(np.abs(a - b) <= rel * np.maximum(1.0, np.abs(b))))


def _in_bounds(val, bnd):
    lo, hi = bnd[0], bnd[1]
    typ = bnd[2] if len(bnd) > 2 else "cc"
    okl = val >= lo if typ[0] == "c" else val > lo
    okh = val <= hi if typ[1] == "c" else val < hi
    return bool(okl and okh)


def _draw_value(rng, bnd, kind):
    """kind: in | edge | out"""
    lo, hi = float(bnd[0]), float(bnd[1])
    typ = bnd[2] if len(bnd) > 2 else "cc"
    span_hi = hi if math.isfinite(hi) else max(lo, 0.0) + 6.0
    span_lo = lo if math.isfinite(lo) else min(hi, 0.0) - 6.0
    if kind == "in":
        return round(float(rng.uniform(span_lo + 0.05 * (span_hi - span_lo), span_lo + 0.9 * (span_hi - span_lo))), 4)
    if kind == "edge":
        cands = []
        if math.isfinite(lo):
            cands.append(lo)
        if math.isfinite(hi):
            cands.append(hi)
        return float(rng.choice(cands)) if cands else 1.0
    cands = []
    if math.isfinite(lo):
        cands += [lo - 0.5, lo - 1e-9 * max(1.0, abs(lo))]
    if math.isfinite(hi):
        cands += [hi + 0.5, hi + 1e-9 * max(1.0, abs(hi))]
    return float(rng.choice(cands)) if cands else -1.0


def _valid(sh, bounds):
    """Is the shadow state inside the given bounds (all parameters, incl. the coupled TPL variance)?"""
    vals = {"var": sh.var_raw * sh.var_factor(), "len_scale": sh.len_scale, "nugget": sh.nugget}
    vals.update(sh.opt)
    for k, v in vals.items():
        if k in bounds and bounds[k] and not _in_bounds(v, bounds[k]):
            return False
    for a in sh.anis:
        if not a > 0 or ("anis" in bounds and bounds["anis"] and not _in_bounds(a, bounds["anis"])):
            return False
    return True


def _quiescent_invariant(model):
    """Evaluate the class invariant on the quiescent state (transient states inside a setter are not observable)."""
    _INV["fail"] = None
    _model_consistent(model)
    _ = model.sill  # also through the installed icontract invariant
    out = _INV["fail"]
    _INV["fail"] = None
    return out


def check_history(ctx, c):
    import copy

    _install_invariant()
    rng = np.random.default_rng(c["hseed"])
    name, cfg = c["name"], c["cfg"]
    latlon = cfg.startswith("latlon")
    dim0 = (3 if latlon else c["spatial_dim"]) + int(cfg.endswith("temporal"))
    opt = common.draw_opt(rng, name, dim0, "interior")
    full_opt = dict(_default_opt(name, dim0))
    full_opt.update(opt)
    sh = Shadow(name, cfg, c["spatial_dim"], full_opt, rng)
    try:
        model = _build(name, sh.kwargs())
    except ValueError as exc:
        ctx.fail({"what": "valid-construction-rejected", "model": name}, f"{sh.kwargs()}: {exc}")
        return
    sh.var_raw = sh.var / sh.var_factor()
    default_bounds = {k: list(v) for k, v in model.arg_bounds.items()}
    user_bounds = {}
    changed = False
    dim_changed = False
    hist = []
    ctx.cell(f"history/{name}/{cfg}")
    for step in range(c["nops"]):
        ops = ["var", "var_raw", "len_scale", "len_scale_list", "anis", "angles", "nugget", "rescale", "integral_scale"]
        ops += ["opt:" + o for o in model.opt_arg] * 2
        if not latlon:
            ops += ["dim", "dim", "angles"]
        ops += ["bounds"]
        op = str(rng.choice(ops))
        kind = str(rng.choice(["in", "in", "in", "edge", "out"]))
        try:
            _derived(model)  # a user reads derived quantities between two assignments
        except Exception:  # noqa: BLE001  (judged below on the accepted state)
            pass
        before = _state(model)
        bounds = {k: list(v) for k, v in model.arg_bounds.items()}
        sh2 = copy.deepcopy(sh)
        judge = True  # whether acceptance/rejection is decided by the bounds of the resulting state
        desc = None
        action = None
        if op in ("var", "var_raw", "nugget"):
            bname = "var" if op != "nugget" else "nugget"
            v = _draw_value(rng, bounds[bname], kind)
            desc = (op, v)
            if op == "var":
                sh2.var_raw = v / sh.var_factor()
            elif op == "var_raw":
                sh2.var_raw = v
            else:
                sh2.nugget = v
            action = lambda: setattr(model, op, v)
        elif op == "len_scale":
            v = _draw_value(rng, bounds["len_scale"], kind)
            desc = (op, v)
            sh2.len_scale = v
            action = lambda: setattr(model, "len_scale", v)
        elif op == "len_scale_list":
            k = int(rng.integers(1, sh.dim + 2))  # incl. a one-element list: a single value never recalculates the ratios
            vals = [round(float(rng.uniform(0.3, 7.0)), 3) for _ in range(k)]
            if kind == "out":
                vals[int(rng.integers(0, k))] = float(rng.choice([-1.0, 0.0]))
            desc = (op, vals)
            cut = vals[: sh.dim]
            sh2.len_scale = cut[0]
            if len(cut) > 1:
                fullv = cut + [cut[-1]] * (sh.dim - len(cut))
                raw = [fullv[i] / fullv[0] if fullv[0] != 0 else float("nan") for i in range(1, sh.dim)]
                sh2.anis = raw if any(not (a > 0) for a in raw) else sh.fix_anis(raw)
            action = lambda: setattr(model, "len_scale", vals)
        elif op == "anis":
            k = int(rng.integers(1, sh.dim + 1))
            vals = [round(float(np.exp(rng.uniform(-1.5, 1.5))), 3) for _ in range(k)]
            if kind == "out":
                vals[-1] = float(rng.choice([0.0, -2.0]))
            arg = vals[0] if (k == 1 and rng.random() < 0.5) else vals
            desc = (op, arg)
            if sh.dim > 1:
                raw = orot.pad_anis(sh.dim, vals)
                sh2.anis = raw if any(not (a > 0) for a in raw) else sh.fix_anis(vals)
            action = lambda: setattr(model, "anis", arg)
        elif op == "angles":
            k = int(rng.integers(1, len(sh.angles) + 2))
            vals = [round(float(rng.uniform(-4, 4)), 3) for _ in range(k)]
            arg = vals[0] if (k == 1 and rng.random() < 0.5) else vals
            desc = (op, arg)
            sh2.angles = sh.fix_angles(vals)
            action = lambda: setattr(model, "angles", arg)
        elif op == "rescale":
            v = None if rng.random() < 0.2 else round(float(rng.uniform(0.3, 3.0)) * float(rng.choice([1, -1])), 3)
            desc = (op, v)
            sh2.rescale = None if v is None else abs(v)
            judge = False  # the rescale setter performs no bounds check (documented as a plain factor)
            action = lambda: setattr(model, "rescale", v)
        elif op == "integral_scale":
            v = round(float(rng.uniform(0.5, 5.0)), 3)
            desc = (op, v)
            judge = False  # multi-step setter: may be refused explicitly; then the model must be unchanged
            action = lambda: setattr(model, "integral_scale", v)
        elif op.startswith("opt:"):
            o = op[4:]
            v = _draw_value(rng, bounds[o], kind)
            desc = (op, v)
            sh2.opt[o] = v
            action = lambda: setattr(model, o, v)
        elif op == "dim":
            newd = int(rng.integers(1, 5))
            desc = (op, newd)
            sh2.dim = newd
            sh2.anis = sh2.fix_anis(sh.anis[: max(newd - 1, 0)] if sh.anis else 1.0) if newd > 1 else []
            sh2.angles = sh2.fix_angles(sh.angles if sh.angles else 0.0)
            judge = False
            action = lambda: setattr(model, "dim", newd)
        else:  # set_arg_bounds: narrowed inside the default bounds so that the state stays constructible
            cands = ["len_scale", "nugget"] + list(model.opt_arg) + ([] if name in common.TPL else ["var"])
            arg = str(rng.choice(cands))
            cur = float(getattr(model, arg))
            dlo, dhi = float(default_bounds[arg][0]), float(default_bounds[arg][1])
            inside = rng.random() < 0.8 or name in common.TPL
            if inside:
                lo = cur - float(rng.uniform(0.05, 1.0))
                hi = cur + float(rng.uniform(0.05, 2.0))
            else:
                lo = cur + float(rng.uniform(0.2, 1.0))
                hi = lo + float(rng.uniform(0.5, 2.0))
            lo, hi = max(lo, dlo), min(hi, dhi)
            if not lo < hi or (not math.isfinite(dlo) and False):
                hist.append(("bounds-skipped",))
                continue
            if lo == dlo and dlo != -math.inf:
                typ0 = (default_bounds[arg][2] if len(default_bounds[arg]) > 2 else "cc")[0]
            else:
                typ0 = str(rng.choice(["o", "c"]))
            if hi == dhi and dhi != math.inf:
                typ1 = (default_bounds[arg][2] if len(default_bounds[arg]) > 2 else "cc")[1]
            else:
                typ1 = str(rng.choice(["o", "c"]))
            nb = [round(lo, 6) if lo != dlo else lo, round(hi, 6) if hi != dhi else hi, typ0 + typ1]
            if not nb[0] < nb[1]:
                continue
            desc = ("bounds", arg, nb)
            if not _in_bounds(cur, nb):
                newv = (nb[0] + nb[1]) / 2.0
                if arg == "var":
                    sh2.var_raw = newv / sh.var_factor()
                elif arg == "len_scale":
                    sh2.len_scale = newv
                elif arg == "nugget":
                    sh2.nugget = newv
                else:
                    sh2.opt[arg] = newv
            bounds[arg] = nb
            judge = False
            action = lambda: model.set_arg_bounds(**{arg: nb})
        expect_reject = judge and not _valid(sh2, bounds)
        rejected, rej_msg = False, ""
        with warnings.catch_warnings():
            warnings.simplefilter("ignore")
            try:
                action()
            except ValueError as exc:
                rejected, rej_msg = True, str(exc)
        hist.append(desc)
        ctx.event("ops_applied")
        after = _state(model)
        if rejected:
            ctx.event("rejections_checked")
            if judge and not expect_reject:
                ctx.fail({"what": "in-bounds-value-rejected", "model": name, "op": op.split(":")[0]}, f"{desc}: {rej_msg} (history {hist})")
                return
            if op == "bounds":
                return  # partially applied bound change with reset: semantics not specified, stop this history
            if after != before:
                diff = {k: (before[k], after[k]) for k in before if before[k] != after.get(k)}
                ctx.fail({"what": "rejected-assignment-changed-model", "model": name, "op": op.split(":")[0]},
                         f"{desc} raised ({rej_msg}) but the model changed: {diff}")
                return
            continue
        if expect_reject:
            ctx.fail({"what": "out-of-bounds-value-accepted", "model": name, "op": op.split(":")[0]},
                     f"{desc} accepted although the resulting state violates {bounds}; history {hist}")
            return
        sh = sh2
        if op == "bounds":
            user_bounds[desc[1]] = desc[2]
        if op == "dim":
            dim_changed = True
        if op == "integral_scale":
            got_is = float(model.integral_scale)
            if not abs(got_is - desc[1]) <= 2e-3 * desc[1]:
                ctx.fail({"what": "integral_scale-setter", "model": name}, f"requested {desc[1]}, model reports {got_is}")
                return
            sh.len_scale = float(model.len_scale)
        if after != before:
            changed = True
        # ---- shadow comparison (documented couplings only) ------------------------------------
        exp = {"len_scale": sh.len_scale, "nugget": sh.nugget, "anis": sh.anis, "angles": sh.angles, "dim": sh.dim,
               "var_raw": sh.var_raw, "var": sh.var_raw * sh.var_factor()}
        exp["rescale"] = sh.rescale if sh.rescale is not None else float(model.default_rescale())
        for o in model.opt_arg:
            exp[o] = sh.opt[o]
        for k, want in exp.items():
            if not _close(after[k], want, 1e-12):
                ctx.fail({"what": "setter-side-effect", "model": name, "cfg": cfg, "op": op.split(":")[0], "changed": k},
                         f"after {desc}: {k} = {after[k]} expected {want} (history {hist})")
                return
        # ---- class invariant on the quiescent state ------------------------------------------------
        inv = _quiescent_invariant(model)
        if inv and not (op == "rescale" and name in common.TPL):
            ctx.fail({"what": "class-invariant", "model": name, "cfg": cfg, "op": op.split(":")[0]}, f"{inv} after {desc} (history {hist})")
            return
        # ---- fresh construction from the public values -----------------------------------------
        kw = _public_kwargs(model)
        ctx.event("fresh_comparisons")
        try:
            fresh = _build(name, kw)
            if user_bounds:
                fresh.set_arg_bounds(**user_bounds)
        except ValueError as exc:
            mech = {"what": "fresh-construction-rejects-reached-state", "model": name, "cfg": cfg}
            if dim_changed and name in ("JBessel", "SuperSpherical", "TPLSimple") and "nu" in str(exc):
                mech["mechanism"] = "set_dim/opt-arg-bounds-not-refreshed"
            ctx.fail(mech, f"{name}(**{kw}) raises '{exc}' but the history {hist} was accepted")
            return
        fs = _state(fresh)
        for k in after:
            if not _close(fs[k], after[k], 1e-13):
                ctx.fail({"what": "history!=fresh-construction", "model": name, "cfg": cfg, "differs": k},
                         f"{k}: history {after[k]} vs constructed {fs[k]} (history {hist})")
                return
        try:
            da, db = _derived(model), _derived(fresh)
        except Exception as exc:  # noqa: BLE001
            da = db = None
            ctx.event("derived_quantities_unavailable")
        if da is not None:
            ctx.event("derived_quantities_compared", len(da))
            for k in da:
                if not (np.array_equal(np.atleast_1d(da[k]), np.atleast_1d(db[k]), equal_nan=True) or _close(da[k], db[k], 1e-9)):
                    ctx.fail({"what": "derived-quantity-depends-on-history", "model": name, "cfg": cfg, "quantity": k, "op": op.split(":")[0]},
                             f"{k}: live model {da[k]} vs freshly constructed {db[k]} after {desc} (history {hist})")
                    return
        lags = np.array([0.0, 0.1, 0.7, 2.0, 9.0]) * after["len_scale"]
        with np.errstate(all="ignore"):
            va, vb = model.variogram(lags), fresh.variogram(lags)
        if not _close(va, vb, 1e-11):
            ctx.fail({"what": "history!=fresh-function-values", "model": name}, f"{va} vs {vb} (history {hist})")
            return
        if dim_changed and name in ("JBessel", "SuperSpherical", "TPLSimple") and "nu" not in user_bounds:
            # known mechanism: the bounds of nu still belong to the construction dimension
            lo_now = common.opt_bounds(name, sh.dim)["nu"][0]
            if model.arg_bounds["nu"][0] != lo_now:
                ctx.fail({"what": "opt-arg-bounds-stale-after-dim-change", "model": name, "mechanism": "set_dim/opt-arg-bounds-not-refreshed"},
                         f"dim={sh.dim}: bounds of nu are {model.arg_bounds['nu']}, a model built in this dimension has lower bound {lo_now}")
                return
    ctx.event("invariant_evaluations", _INV["n"])
    _INV["n"] = 0
    if not changed:
        ctx.trivial()


def _resync(sh, model):
    sh.len_scale = float(model.len_scale)
    sh.nugget = float(model.nugget)
    sh.var_raw = float(model.var_raw)
    sh.anis = [float(a) for a in model.anis]
    sh.angles = [float(a) for a in model.angles]
    for o in model.opt_arg:
        sh.opt[o] = float(getattr(model, o))


def check_bounds(ctx, c):
    """Open/closed bound semantics for every parameter of every class (also user-set bounds of all four types)."""
    _install_invariant()
    rng = np.random.default_rng(c["bseed"])
    name, dim = c["name"], c["dim"]
    model = _build(name, dict(dim=dim))
    args = ["var", "len_scale", "nugget"] + list(model.opt_arg)
    if name in common.TPL:
        args = ["nugget"]  # every other parameter of a TPL model is coupled to the variance through the intensity
    ctx.cell(f"bounds/{name}")
    for arg in args:
        for user in (False, True):
            if user:
                cur = float(getattr(model, arg))
                lo, hi = round(cur - 0.37, 3), round(cur + 0.81, 3)
                if arg in ("var", "len_scale"):
                    lo = max(lo, 0.05)
                typ = str(rng.choice(["oo", "cc", "oc", "co"]))
                with warnings.catch_warnings():
                    warnings.simplefilter("ignore")
                    model.set_arg_bounds(**{arg: [lo, hi, typ]})
            bnd = list(model.arg_bounds[arg])
            lo, hi = float(bnd[0]), float(bnd[1])
            typ = bnd[2] if len(bnd) > 2 else "cc"
            probes = []
            if math.isfinite(lo):
                probes += [(lo, typ[0] == "c"), (float(np.nextafter(lo, -np.inf)), False), (float(np.nextafter(lo, np.inf)), True)]
            if math.isfinite(hi):
                probes += [(hi, typ[1] == "c"), (float(np.nextafter(hi, np.inf)), False), (float(np.nextafter(hi, -np.inf)), True)]
            for val, ok in probes:
                if name in common.TPL and arg == "var":
                    continue  # var is set through the intensity: boundary values are not exactly representable
                before = _state(model)
                try:
                    with warnings.catch_warnings():
                        warnings.simplefilter("ignore")
                        setattr(model, arg, val)
                    accepted = True
                except ValueError:
                    accepted = False
                ctx.event("rejections_checked")
                if accepted != ok:
                    ctx.fail({"what": "bound-semantics", "model": name, "arg": "opt" if arg in model.opt_arg else arg, "type": typ},
                             f"{name}.{arg} = {val!r} with bounds {bnd}: {'accepted' if accepted else 'rejected'}, expected {'accept' if ok else 'reject'}")
                    return
                if not accepted and _state(model) != before:
                    ctx.fail({"what": "rejected-assignment-changed-model", "model": name, "op": arg}, f"{arg}={val!r}")
                    return
                if accepted:
                    # restore an interior value
                    mid = before[arg]
                    with warnings.catch_warnings():
                        warnings.simplefilter("ignore")
                        setattr(model, arg, mid)
    ctx.event("ops_applied")
    ctx.event("fresh_comparisons")
    inv = _quiescent_invariant(model)
    ctx.event("invariant_evaluations", _INV["n"])
    _INV["n"] = 0
    if inv:
        ctx.fail({"what": "class-invariant", "model": name}, inv)


def check_coupled_bounds(ctx, c):
    """Truncated power law models: the variance follows hurst / len_low / len_scale; with user bounds on the variance an
    assignment of one of those is accepted iff the *resulting* variance is inside them, and a refused one changes nothing."""
    rng = np.random.default_rng(c["kseed"])
    name, dim = c["name"], c["dim"]
    with warnings.catch_warnings():
        warnings.simplefilter("ignore")
        model = _build(name, dict(dim=dim, len_scale=round(float(rng.uniform(1, 4)), 3), hurst=round(float(rng.uniform(0.3, 0.6)), 3)))
    ctx.cell(f"coupled_bounds/{name}")
    v0 = float(model.var)
    hi = v0 * float(rng.uniform(1.2, 2.0))
    try:
        model.set_arg_bounds(var=[0.0, hi, "oc"])
    except ValueError as exc:
        ctx.fail({"what": "valid-bounds-rejected", "model": name}, f"var bounds [0, {hi}] rejected at var={v0}: {exc}")
        return
    for step in range(4):
        arg = str(rng.choice(["hurst", "len_low", "len_scale"]))
        cur = float(getattr(model, arg))
        if arg == "hurst":
            new = round(float(rng.uniform(0.15, 0.95)), 3)
        elif arg == "len_low":
            new = round(float(rng.choice([0.0, rng.uniform(0.1, 30.0)])), 3)
        else:
            new = round(float(rng.uniform(0.3, 12.0)), 3)
        before = _state(model)
        vraw = float(model.var_raw)
        hh = 2 * (new if arg == "hurst" else float(model.hurst))
        low = (new if arg == "len_low" else float(model.len_low)) / float(model.rescale)
        up = low + (new if arg == "len_scale" else float(model.len_scale)) / float(model.rescale)
        want_var = vraw * (up**hh - low**hh) / hh
        margin = abs(want_var - hi) / hi
        if margin < 1e-9:
            continue
        ok = want_var <= hi
        raised = False
        try:
            with warnings.catch_warnings():
                warnings.simplefilter("ignore")
                setattr(model, arg, new)
        except ValueError:
            raised = True
        ctx.event("ops_applied")
        mech = {"what": "coupled-variance-bound", "model": name, "arg": arg}
        after = _state(model)
        if ok and raised:
            ctx.fail(dict(mech, what="assignment-inside-coupled-bounds-rejected"), f"{arg}={new}: resulting var {want_var:.6g} <= {hi:.6g} but the assignment raised")
            return
        if not ok:
            ctx.event("rejections_checked")
            if not raised:
                ctx.fail(dict(mech, what="assignment-violating-coupled-bounds-accepted"),
                         f"{arg}={new}: resulting var {want_var:.6g} > upper bound {hi:.6g}, accepted (model.var = {float(model.var):.6g})")
                return
            if after != before:
                ctx.fail(dict(mech, what="rejected-assignment-changed-model"), f"{arg}={new} raised but the model changed: { {k: (before[k], after[k]) for k in before if before[k] != after[k]} }")
                return
        elif not _close(float(model.var), want_var, 1e-10):
            ctx.fail(dict(mech, what="variance-does-not-follow-its-definition"), f"after {arg}={new}: var {float(model.var)!r}, expected {want_var!r}")
            return


def check_construct(ctx, c):
    """Every way of stating the same parameters at construction gives the same model, and the model reports what was stated."""
    rng = np.random.default_rng(c["kseed"])
    name, dim = c["name"], c["dim"]
    if dim > common.max_valid_dim(name):
        dim = common.max_valid_dim(name)
    opt = common.draw_opt(rng, name, dim, "interior")
    var = round(float(rng.uniform(0.3, 3.0)), 3)
    nug = float(rng.choice([0.0, round(float(rng.uniform(0.05, 0.5)), 3)]))
    geo = {}
    if dim > 1:
        geo["angles"] = [round(float(v), 3) for v in rng.uniform(-3, 3, size=dim * (dim - 1) // 2)]
    ctx.cell(f"construct/{name}/dim{dim}")
    route = str(rng.choice(["integral_scale", "integral_scale_list", "len_scale_list", "var_raw"]))
    mech = {"what": "construction", "model": name, "route": route}
    with warnings.catch_warnings():
        warnings.simplefilter("ignore")
        try:
            if route == "integral_scale":
                I = round(float(rng.uniform(0.5, 6.0)), 3)
                a = _build(name, dict(dim=dim, var=var, nugget=nug, integral_scale=I, **geo, **opt))
                b = _build(name, dict(dim=dim, nugget=nug, **geo, **opt))
                b.integral_scale = I
                b.var = var
                want = {"var": var, "integral_scale": I}
            elif route == "integral_scale_list" and dim > 1:
                Is = [round(float(v), 3) for v in rng.uniform(0.5, 6.0, size=dim)]
                a = _build(name, dict(dim=dim, var=var, nugget=nug, integral_scale=Is, **geo, **opt))
                b = _build(name, dict(dim=dim, nugget=nug, **geo, **opt))
                b.integral_scale = Is
                b.var = var
                want = {"var": var, "integral_scale": Is[0], "anis": [v / Is[0] for v in Is[1:]]}
            elif route == "len_scale_list" and dim > 1:
                ls = [round(float(v), 3) for v in rng.uniform(0.5, 6.0, size=dim)]
                a = _build(name, dict(dim=dim, var=var, nugget=nug, len_scale=ls, anis=[9.0] * (dim - 1), **geo, **opt))
                b = _build(name, dict(dim=dim, var=var, nugget=nug, len_scale=ls[0], anis=[v / ls[0] for v in ls[1:]], **geo, **opt))
                want = {"var": var, "len_scale": ls[0], "anis": [v / ls[0] for v in ls[1:]]}
            else:
                route = "var_raw"
                vr = round(float(rng.uniform(0.3, 3.0)), 3)
                L = round(float(rng.uniform(0.5, 6.0)), 3)
                a = _build(name, dict(dim=dim, var_raw=vr, nugget=nug, len_scale=L, **geo, **opt))
                b = _build(name, dict(dim=dim, nugget=nug, len_scale=L, **geo, **opt))
                b.var_raw = vr
                want = {"var_raw": vr, "len_scale": L}
        except ValueError as exc:
            ctx.discard(f"parameters rejected: {str(exc)[:50]}")
            return
    ctx.event("constructions_compared")
    for k, v in want.items():
        got = getattr(a, k)
        tol = 2e-3 if k == "integral_scale" else 1e-12
        if not _close(got, v, tol):
            ctx.fail(dict(mech, route=route, what="constructed-model-does-not-report-the-stated-value", attr=k), f"{name}(.., {route}): {k} = {got} but {v} was stated (opt {opt})")
            return
    sa, sb = _state(a), _state(b)
    for k in sa:
        if not _close(sa[k], sb[k], 1e-10 if "integral" in route else 1e-13):
            ctx.fail(dict(mech, route=route, what="constructor!=setters", attr=k), f"{name} via constructor({route}): {k} = {sa[k]}, via setters {sb[k]} (opt {opt})")
            return


CHECKS = {"history": check_history, "bounds": check_bounds, "construct": check_construct, "coupled_bounds": check_coupled_bounds}
