"""C17 – Fourier-generated fields are exactly periodic along the model's main axes."""

import math
import warnings

import numpy as np

from gsverif import common
from gsverif.common import gs
from gsverif.oracles import rot as orot

SHARDS = {"quick": 16, "thorough": 16}
TIMEOUT = {"quick": 900, "thorough": 3600}
REQUIRED_EVENTS = ["periodicity_residuals", "history_steps", "mode_grids_inspected"]
RULE = (
    "dim 1-3 x models x anisotropy ratios x rotation x periods per axis x even mode counts x seeds x off-grid points; "
    "update histories (<= 6 steps) of period / mode_no / seed / model (in place and re-assigned); non-trivial = anisotropic or "
    "rotated model, or at least one update step"
    " History operations include single-axis and in-place period edits, scalar periods equal to one axis, rotated models with ratios 1 or within 1e-5 of 1."
)
ASSUMPTIONS = ["main axes from the independent rotation oracle (gsverif/oracles/rot.py)"]
LEVEL_TEXT = (
    "Runtime monitoring: the generated field is evaluated at off-grid points x and x + m*period_i*axis_i (axis_i from an independent "
    "rotation construction) for seeded settings and after every step of update histories; the tapped mode grid is inspected for "
    "integer multiples of 2*pi*anis_i/period_i."
)
TECHNIQUE = "runtime periodicity monitor at displaced points + mode-grid tap + update-history driver"

MODELS = ["Gaussian", "Exponential", "Matern", "Integral", "TPLGaussian", "JBessel", "HyperSpherical", "Stable"]


def generate(tier, seed):
    rng = np.random.default_rng([seed, 17])
    n = {"quick": 60, "thorough": 5000}[tier]
    cases = []
    for rep in range(n):
        for dim in (1, 2, 3):
            for kind in ("static", "history"):
                name = str(rng.choice([m for m in MODELS if dim <= common.max_valid_dim(m)]))
                cases.append((kind, {"dim": dim, "name": name, "cseed": int(rng.integers(1 << 30)), "seed": int(rng.integers(1, 1 << 24)),
                                     "rotated": bool(rng.random() < 0.5), "nsteps": int(rng.integers(1, 7))}))
    return cases


def _residual(ctx, srf, dim, rng, what, info):
    """max over axes/multiples of |u(x + m L_i a_i) - u(x)| relative to max|u| at off-grid points."""
    g = srf.generator
    model = srf.model
    period = np.asarray(g.period, dtype=float)
    axes = orot.rot(dim, model.angles if dim > 1 else 0.0)
    x = rng.uniform(-7, 7, size=(dim, 9)) + rng.uniform(0, 1e-3)
    arg = (lambda p: p) if dim > 1 else (lambda p: p[0])
    with warnings.catch_warnings():
        warnings.simplefilter("ignore")
        u0 = np.array(srf(arg(x)), copy=True)
    if not np.all(np.isfinite(u0)):
        ctx.discard("field not finite (numerically negative spectrum)")
        return None
    scale = max(common.maxabs(u0), 1e-300)
    kmax = common.maxabs(g._modes)
    worst = 0.0
    for i in range(dim):
        for m in (1, 2, -3):
            shift = m * period[i] * axes[:, i]
            with warnings.catch_warnings():
                warnings.simplefilter("ignore")
                u1 = np.asarray(srf(arg(x + shift[:, None])))
            res = common.maxabs(u1 - u0) / scale
            tol = max(1e-10, 2000 * 2.3e-16 * kmax * (7.0 + abs(m) * period[i]) * math.sqrt(g._modes.shape[1]))
            ctx.event("periodicity_residuals")
            worst = max(worst, res)
            if not res <= tol:
                mech = {"what": what, "axis": i, "dim": dim}
                mech.update(info)
                ctx.fail(mech, f"|u(x + {m}*L_{i}*a_{i}) - u(x)| / max|u| = {res:.3e} (tol {tol:.1e}); period {list(period)}, "
                               f"mode_no {list(g.mode_no)}, anis {list(model.anis)}, angles {list(model.angles)}")
                return None
    ctx.resolve("periodicity_residual", worst)
    # tap: modes are integer multiples of 2 pi anis_i / period_i
    e = np.array([1.0] + [float(a) for a in model.anis])
    dk = 2 * math.pi / period * e
    ratio = g._modes / dk[:, None]
    ctx.event("mode_grids_inspected")
    if common.maxabs(ratio - np.round(ratio)) > 1e-9:
        mech = {"what": "mode-grid-not-integer-multiples", "dim": dim}
        mech.update(info)
        ctx.fail(mech, f"modes/delta_k deviates from integers by {common.maxabs(ratio - np.round(ratio)):.3e}")
        return None
    want_no = [int(v) for v in info.get("requested_mode_no", g.mode_no)]
    if [int(v) for v in g.mode_no] != want_no or g._modes.shape[1] != int(np.prod(want_no)):
        mech = {"what": "mode-count-differs-from-request", "dim": dim}
        ctx.fail(mech, f"requested {want_no}, generator has {list(g.mode_no)} ({g._modes.shape[1]} modes)")
        return None
    return worst


def _setup(c, rng):
    dim = c["dim"]
    d = common.draw_model(rng, c["name"], dim, "interior", aniso=True, nugget=False)
    if not c["rotated"] and dim > 1:
        d["angles"] = [0.0] * (dim * (dim - 1) // 2)
    if c["rotated"] and dim > 1 and rng.random() < 0.3:
        d["anis"] = [1.0] * (dim - 1)  # isotropic but rotated
    if c["name"] == "Stable" and "opt" in d:
        d["opt"]["alpha"] = max(d["opt"]["alpha"], 1.0)
    model = common.build_model(d)
    period = [round(float(v), 4) for v in rng.uniform(6, 25, size=dim)]
    mode_no = [int(v) for v in rng.choice([2, 4, 8, 16] if dim < 3 else [2, 4, 6], size=dim)]
    if rng.random() < 0.3:
        period = period[0]
        mode_no = mode_no[0]
    with warnings.catch_warnings():
        warnings.simplefilter("ignore")
        srf = gs.SRF(model, generator="Fourier", period=period, mode_no=mode_no, seed=c["seed"])
    req = [mode_no] * dim if np.isscalar(mode_no) else mode_no
    return srf, d, req


def check_static(ctx, c):
    rng = np.random.default_rng(c["cseed"])
    srf, d, req = _setup(c, rng)
    ctx.cell(f"static/{c['name']}/dim{c['dim']}/{'rot' if c['rotated'] else 'axis'}")
    if c["dim"] == 1:
        ctx.trivial() if False else None
    _residual(ctx, srf, c["dim"], rng, "not-periodic", {"model": c["name"], "requested_mode_no": req, "after": "construction"})


def check_history(ctx, c):
    rng = np.random.default_rng(c["cseed"])
    dim = c["dim"]
    srf, d, req = _setup(c, rng)
    ctx.cell(f"history/{c['name']}/dim{dim}")
    hist = []
    for step in range(c["nsteps"]):
        op = str(rng.choice(["period", "period_scalar", "rejected_update", "period_inplace", "period_edit_reported", "period_one_axis", "period_scalar_keeps_axis", "mode_no_one_axis", "iso_rotated", "mode_no", "seed", "anis", "len_scale_list", "angles", "opt", "len_scale",
                             "new_model", "var", "call"]))
        with warnings.catch_warnings():
            warnings.simplefilter("ignore")
            if op == "period":
                srf.generator.period = [round(float(v), 4) for v in rng.uniform(6, 25, size=dim)]
            elif op == "period_scalar":
                srf.generator.period = round(float(rng.uniform(6, 25)), 4)
            elif op == "rejected_update":
                # an update that has to be refused (odd mode number) must leave the generator as it was
                before = (np.array(srf.generator.period, copy=True), [int(v) for v in np.atleast_1d(srf.generator.mode_no)])
                bad = [int(v) for v in rng.choice([4, 6, 8], size=dim)]
                bad[int(rng.integers(0, dim))] = int(rng.choice([3, 5, 7]))
                try:
                    srf.generator.update(period=[round(float(v), 4) for v in rng.uniform(6, 25, size=dim)], mode_no=bad)
                    ctx.fail({"what": "odd-mode-number-accepted", "dim": dim}, f"update(mode_no={bad}) did not raise")
                    return
                except ValueError:
                    pass
                after = (np.asarray(srf.generator.period), [int(v) for v in np.atleast_1d(srf.generator.mode_no)])
                if not (np.array_equal(np.atleast_1d(before[0]), np.atleast_1d(after[0])) and before[1] == after[1]):
                    ctx.fail({"what": "rejected-update-changed-the-reported-settings", "dim": dim}, f"period/mode_no {before} -> {after} although the update raised")
                    return
            elif op == "period_inplace":
                # augmented assignment on the property: read, scale, assign
                srf.generator.period *= float(rng.choice([1.5, 0.75, 2.0]))
            elif op == "period_edit_reported":
                # edit the array the generator reports and hand it back
                pr = srf.generator.period
                if np.ndim(pr) == 0:
                    srf.generator.period = float(pr) * 1.25
                else:
                    pr[int(rng.integers(0, len(pr)))] = round(float(rng.uniform(6, 25)), 4)
                    srf.generator.period = pr
            elif op == "period_one_axis":
                # only some axes change: the others keep exactly their old value
                newp = [float(v) for v in np.atleast_1d(np.asarray(srf.generator.period, dtype=float))]
                newp = (newp * dim)[:dim]
                newp[int(rng.integers(0, dim))] = round(float(rng.uniform(6, 25)), 4)
                srf.generator.period = newp
            elif op == "period_scalar_keeps_axis":
                srf.generator.period = float(np.atleast_1d(np.asarray(srf.generator.period, dtype=float))[int(rng.integers(0, dim)) % np.size(srf.generator.period)])
            elif op == "mode_no_one_axis":
                req = [int(v) for v in np.atleast_1d(srf.generator.mode_no)]
                req = (req * dim)[:dim]
                req[int(rng.integers(0, dim))] = int(rng.choice([2, 4, 6]))
                srf.generator.mode_no = req
            elif op == "iso_rotated" and dim > 1:
                # all ratios 1 but rotated: the covariance is rotation invariant, the period lattice is not
                srf.model.anis = [1.0] * (dim - 1)
                srf.model.angles = [round(float(v), 3) for v in rng.uniform(-3, 3, size=dim * (dim - 1) // 2)]
            elif op == "mode_no":
                req = [int(v) for v in rng.choice([2, 4, 8] if dim < 3 else [2, 4, 6], size=dim)]
                srf.generator.mode_no = req
            elif op == "seed":
                srf.generator.seed = int(rng.integers(1, 1 << 24))
            elif op == "anis" and dim > 1:
                # non-commensurate changes of the ratios
                srf.model.anis = [round(float(v), 4) for v in np.exp(rng.uniform(-1.2, 1.2, size=dim - 1))]
            elif op == "len_scale_list" and dim > 1:
                srf.model.len_scale = [round(float(v), 3) for v in rng.uniform(0.5, 6, size=dim)]
            elif op == "angles" and dim > 1:
                srf.model.angles = [round(float(v), 3) for v in rng.uniform(-3, 3, size=dim * (dim - 1) // 2)]
            elif op == "opt" and srf.model.opt_arg:
                newo = common.draw_opt(rng, srf.model.name, dim, "interior")
                for k, v in newo.items():
                    if srf.model.name == "Stable" and k == "alpha":
                        v = max(v, 1.0)
                    setattr(srf.model, k, v)
            elif op == "len_scale":
                srf.model.len_scale = round(float(rng.uniform(0.5, 6)), 3)
            elif op == "var":
                srf.model.var = round(float(rng.uniform(0.3, 3)), 3)
            elif op == "new_model":
                kw = dict(dim=dim, len_scale=round(float(rng.uniform(0.5, 4)), 3))
                if dim > 1:
                    kw["anis"] = [round(float(v), 3) for v in np.exp(rng.uniform(-1, 1, size=dim - 1))]
                    kw["angles"] = [round(float(v), 3) for v in rng.uniform(-3, 3, size=dim * (dim - 1) // 2)]
                srf.model = getattr(gs, str(rng.choice(["Gaussian", "Exponential", "Matern"])))(**kw)
            else:
                op = op + "(plain call)"
                srf(rng.uniform(-3, 3, size=(dim, 3)) if dim > 1 else rng.uniform(-3, 3, size=3))
        hist.append(op)
        ctx.event("history_steps")
        r = _residual(ctx, srf, dim, rng, "not-periodic-after-update",
                      {"model": c["name"], "op": op.split("(")[0], "requested_mode_no": req, "after": "update"})
        if r is None:
            return


CHECKS = {"static": check_static, "history": check_history}
