"""C08 – empirical variogram estimates equal their mathematical definition."""

import math
import warnings

import numpy as np

from gsverif import common
from gsverif.common import gs
from gsverif.oracles import vario as ov

SHARDS = {"quick": 16, "thorough": 16}
TIMEOUT = {"quick": 1200, "thorough": 5400}
REQUIRED_EVENTS = ["bins_compared", "pairs_enumerated", "kernel_calls"]
RULE = (
    "point clouds in dim 1-3 and lat-lon (integer/dyadic lattices with duplicates and collinear sets, and continuous clouds) x "
    "1-3 fields with NaNs x bin edges (on attainable distances, first edge 0 or > 0, empty bins) x Matheron/Cressie x direction "
    "sets (axes, diagonals, oblique; tolerances in (0, pi/2]; bandwidths; overlapping and separated) x grids and masks for the "
    "along-axis estimator; non-trivial = at least one bin with a pair"
    " Missing values are handed over as NaN, per-field masks or no_data markers (incl. 0); lat-lon estimates are repeated with the same scaled bin array."
)
ASSUMPTIONS = ["gsverif/oracles/vario.py enumerates all pairs with libm scalars in lexicographic order (bit-reproducible sums)"]
LEVEL_TEXT = (
    "Runtime oracle monitoring: bin values and pair counts returned by the compiled estimators (called directly and through "
    "vario_estimate / vario_estimate_axis) are compared bit-for-bit with a pure-Python enumeration of all point pairs applying "
    "the documented half-open binning, direction and estimator formulas."
)
TECHNIQUE = "runtime oracle monitor (pair enumeration, bit-identity) on exact and continuous seeded inputs"


def generate(tier, seed):
    rng = np.random.default_rng([seed, 8])
    n = {"quick": 50, "thorough": 3000}[tier]
    nmax = {"quick": 40, "thorough": 90}[tier]
    cases = []
    for rep in range(n):
        for dim in (1, 2, 3):
            for cls in ("exact", "continuous"):
                cases.append(("iso", {"dim": dim, "cls": cls, "n": int(rng.integers(2, nmax)), "cseed": int(rng.integers(1 << 30)),
                                      "est": str(rng.choice(["matheron", "cressie"])), "nf": int(rng.integers(1, 4)), "api": bool(rng.random() < 0.6)}))
                if dim > 1:
                    cases.append(("directional", {"dim": dim, "cls": cls, "n": int(rng.integers(3, nmax)), "cseed": int(rng.integers(1 << 30)),
                                                  "est": str(rng.choice(["matheron", "cressie"])), "nf": int(rng.integers(1, 3)),
                                                  "api": bool(rng.random() < 0.6)}))
        cases.append(("latlon", {"n": int(rng.integers(2, nmax)), "cseed": int(rng.integers(1 << 30)), "est": str(rng.choice(["matheron", "cressie"])),
                                 "api": bool(rng.random() < 0.5)}))
        for _ in range(3):
            cases.append(("axis", {"cseed": int(rng.integers(1 << 30)), "est": str(rng.choice(["matheron", "cressie"])),
                                   "mode": str(rng.choice(["plain", "nan", "masked", "masked+nan", "no_data", "all-but-one", "rows"]))}))
    return cases


def _points(rng, dim, n, cls):
    if cls == "exact":
        # integer / dyadic coordinates with duplicates and collinear subsets
        pts = rng.integers(0, 6, size=(dim, n)).astype(float) * float(rng.choice([1.0, 0.5, 0.25]))
        if n > 3 and rng.random() < 0.5:
            pts[:, 1] = pts[:, 0]
        if n > 5 and dim > 1 and rng.random() < 0.4:
            pts[1:, :4] = pts[1:, [0]]
        return pts
    return rng.uniform(-5, 5, size=(dim, n)) * float(np.exp(rng.uniform(-1, 1)))


def _fields(rng, nf, n, cls):
    if cls == "exact":
        f = rng.integers(-4, 5, size=(nf, n)).astype(float) * 0.5
    else:
        f = rng.normal(size=(nf, n))
    for m in range(nf):
        if rng.random() < 0.6 and n > 2:
            f[m, rng.integers(0, n, size=max(1, n // 6))] = np.nan
    if rng.random() < 0.05:
        f[0, :] = np.nan
    return f


def _edges(rng, pos, cls, latlon=False):
    n = pos.shape[1]
    if latlon:
        ds = [ov.dist_haversine(pos.tolist(), i, j) for i in range(n) for j in range(i + 1, n)] or [1.0]
    else:
        ds = [ov.dist_euclid(pos.tolist(), i, j) for i in range(n) for j in range(i + 1, n)] or [1.0]
    ds = np.unique(ds)
    kind = str(rng.choice(["attained", "linear", "random", "single"]))
    if kind == "attained" and len(ds) >= 3:
        k = int(rng.integers(2, min(8, len(ds)) + 1))
        e = np.sort(rng.choice(ds, size=k, replace=False))
        if rng.random() < 0.5:
            e = np.concatenate([[0.0], e[e > 0]])
    elif kind == "linear":
        e = np.linspace(0.0 if rng.random() < 0.6 else float(ds[len(ds) // 4]) + 1e-3, float(ds[-1]) * float(rng.choice([0.4, 1.0, 1.5])) + 1e-9, int(rng.integers(2, 12)))
    elif kind == "single":
        e = np.array([float(rng.choice(ds)), float(ds[-1]) * 1.01 + 1e-9])
    else:
        e = np.sort(rng.uniform(0, float(ds[-1]) * 1.2 + 1e-9, size=int(rng.integers(2, 10))))
    e = np.unique(e)
    if len(e) < 2:
        e = np.array([0.0, float(ds[-1]) + 1.0])
    return e


def _present(rng, f):
    """The field with its missing values (NaN in `f`) handed over the way a user may: NaN, masked array (per field), no_data marker."""
    how = str(rng.choice(["nan", "masked", "no_data=-999", "no_data=0"]))
    miss = np.isnan(f)
    if how == "nan" or not miss.any():
        return f, {}, "nan"
    if how == "masked":
        filled = np.where(miss, rng.normal(size=f.shape) * 50.0, f)  # what lies under a mask is arbitrary
        return np.ma.array(filled, mask=miss), {}, how
    marker = -999.0 if how.endswith("-999") else 0.0
    if np.any(f[~miss] == marker):
        return f, {}, "nan"
    return np.where(miss, marker, f), {"no_data": marker}, how


def _compare(ctx, what, got_v, got_c, want_v, want_c, mech, exact=True):
    got_v, want_v = np.asarray(got_v, dtype=float), np.asarray(want_v, dtype=float)
    ctx.event("bins_compared", int(want_v.size))
    if got_c is not None:
        got_c, want_c = np.asarray(got_c), np.asarray(want_c)
        if got_c.shape != want_c.shape or not np.array_equal(got_c, want_c):
            ctx.fail(dict(mech, what=what + ":pair-counts"), f"counts {got_c.tolist()} expected {want_c.tolist()}")
            return False
    if got_v.shape != want_v.shape:
        ctx.fail(dict(mech, what=what + ":shape"), f"shape {got_v.shape} expected {want_v.shape}")
        return False
    if exact:
        ok = np.array_equal(got_v, want_v)
    else:
        ok = bool(np.all(np.abs(got_v - want_v) <= 1e-13 * np.maximum(1.0, np.abs(want_v))))
    if not ok:
        i = int(np.argmax(np.abs(got_v - want_v).ravel()))
        ctx.fail(dict(mech, what=what + ":bin-values"), f"bin {i}: {got_v.ravel()[i]!r} expected {want_v.ravel()[i]!r}; all {got_v.tolist()} vs {want_v.tolist()}")
        return False
    return True


def check_iso(ctx, c):
    from gstools.variogram import estimator as est

    rng = np.random.default_rng(c["cseed"])
    dim, n = c["dim"], c["n"]
    pos = _points(rng, dim, n, c["cls"])
    f = _fields(rng, c["nf"], n, c["cls"])
    edges = _edges(rng, pos, c["cls"])
    kind = "m" if c["est"] == "matheron" else "c"
    want_v, want_c = ov.unstructured(f.tolist(), edges.tolist(), pos.tolist(), kind=kind)
    ctx.event("pairs_enumerated", n * (n - 1) // 2)
    ctx.cell(f"iso/dim{dim}/{c['cls']}/{c['est']}/nf{c['nf']}")
    if sum(want_c) == 0:
        ctx.trivial()
    mech = {"entry": "unstructured", "dim": dim, "estimator": c["est"], "cls": c["cls"]}
    gv, gc = est.unstructured(np.ascontiguousarray(f), np.ascontiguousarray(edges), np.ascontiguousarray(pos), kind, "e", None)
    ctx.event("kernel_calls")
    if not _compare(ctx, "kernel", gv, gc, want_v, want_c, mech):
        return
    if c["api"]:
        fa, fkw, how = _present(rng, f)
        ctx.cell(f"missing-values-as/{how}")
        with warnings.catch_warnings():
            warnings.simplefilter("ignore")
            bc, gv, gc = gs.vario_estimate(pos if dim > 1 else pos[0], fa if c["nf"] > 1 else fa[0], edges, estimator=c["est"], return_counts=True, **fkw)
        ctx.event("kernel_calls")
        mech = dict(mech, missing=how)
        if np.all(np.isnan(f)):
            return
        if not np.array_equal(bc, (edges[:-1] + edges[1:]) / 2.0):
            ctx.fail(dict(mech, what="bin-centers"), f"{bc} vs {(edges[:-1] + edges[1:]) / 2.0}")
            return
        _compare(ctx, "vario_estimate", gv, gc, want_v, want_c, dict(mech, entry="vario_estimate"))


def _directions(rng, dim, cls):
    nd = int(rng.integers(1, 4))
    if cls == "exact":
        cand = [np.eye(dim)[i] for i in range(dim)]
        cand += [np.array(v, dtype=float) for v in ([(1, 1), (1, -1)] if dim == 2 else [(1, 1, 0), (1, 0, 1), (0, 1, -1), (1, 1, 1)])]
        idx = rng.choice(len(cand), size=min(nd, len(cand)), replace=False)
        dirs = np.array([cand[i] for i in idx])
        if rng.random() < 0.4:
            dirs = dirs * rng.choice([-1.0, 1.0], size=(len(dirs), 1))
    else:
        dirs = rng.normal(size=(nd, dim))
        if nd > 1 and rng.random() < 0.4:
            # nearly anti-parallel pair: the same line, overlapping cones
            dirs[1] = -dirs[0] + 0.1 * rng.normal(size=dim)
        elif nd > 1 and rng.random() < 0.5:
            # nearly parallel pair (overlapping cones)
            dirs[1] = dirs[0] + 0.15 * rng.normal(size=dim)
        # direction vectors are given in any length (they are documented to be normalised by the estimator)
        dirs = dirs * np.exp(rng.uniform(np.log(0.05), np.log(20.0), size=(len(dirs), 1)))
    return dirs


def check_directional(ctx, c):
    from gstools.variogram import estimator as est

    rng = np.random.default_rng(c["cseed"])
    dim, n = c["dim"], c["n"]
    pos = _points(rng, dim, n, c["cls"])
    f = _fields(rng, c["nf"], n, c["cls"])
    edges = _edges(rng, pos, c["cls"])
    kind = "m" if c["est"] == "matheron" else "c"
    dirs = _directions(rng, dim, c["cls"])
    norm = dirs / np.linalg.norm(dirs, axis=1)[:, None]
    if c["cls"] == "exact":
        # tolerances whose cosine is attained by lattice pairs (45, 90 degrees) and generic ones
        tol = float(rng.choice([math.pi / 4, math.pi / 2, math.pi / 8, math.atan(0.5), 1e-3]))
        bw = float(rng.choice([-1.0, 0.5, 1.0, math.sqrt(0.5), 2.0]))
    else:
        tol = float(rng.uniform(0.05, math.pi / 2))
        bw = float(rng.choice([-1.0, float(rng.uniform(0.2, 4.0))]))
    ctx.cell(f"directional/dim{dim}/{c['cls']}/{c['est']}/ndir{len(dirs)}/bw={'on' if bw > 0 else 'off'}")
    ctx.event("pairs_enumerated", n * (n - 1) // 2)
    mech = {"entry": "directional", "dim": dim, "estimator": c["est"], "cls": c["cls"], "ndir": len(dirs), "bandwidth": bw > 0}
    # kernel semantics with both values of the separate-directions switch
    for sep in (False, True):
        want_v, want_c = ov.unstructured(f.tolist(), edges.tolist(), pos.tolist(), kind=kind, directions=norm.tolist(), tol=tol, bandwidth=bw, separate=sep)
        gv, gc = est.directional(np.ascontiguousarray(f), np.ascontiguousarray(edges), np.ascontiguousarray(pos), np.ascontiguousarray(norm),
                                 tol, bw, sep, kind, None)
        ctx.event("kernel_calls")
        if not _compare(ctx, f"kernel(separate_dirs={sep})", gv, gc, want_v, want_c, mech):
            return
    if np.sum(want_c) == 0:
        ctx.trivial()
    if c["api"]:
        # the documented result: every direction is evaluated on its own (the early exit is only an optimisation)
        want_v, want_c = ov.unstructured(f.tolist(), edges.tolist(), pos.tolist(), kind=kind, directions=norm.tolist(), tol=tol, bandwidth=bw, separate=False)
        scale = float(rng.choice([1.0, 3.7]))  # non-normalised direction vectors are normalised by the API
        with warnings.catch_warnings():
            warnings.simplefilter("ignore")
            bc, gv, gc = gs.vario_estimate(pos, f if c["nf"] > 1 else f[0], edges, estimator=c["est"], direction=dirs * scale, angles_tol=tol,
                                           bandwidth=None if bw <= 0 else bw, return_counts=True)
        ctx.event("kernel_calls")
        if np.all(np.isnan(f)):
            return
        if len(dirs) == 1:
            want_v, want_c = want_v[0], want_c[0]
        # the API normalises the (scaled) directions itself: identical up to rounding of the normalisation for scale != 1
        exact = scale == 1.0
        if not exact:
            # a rounding difference in the unit vector can move a pair across a cone/band boundary only if it sits on it
            nd2 = (dirs * scale) / np.linalg.norm(dirs * scale, axis=1)[:, None]
            want_v2, want_c2 = ov.unstructured(f.tolist(), edges.tolist(), pos.tolist(), kind=kind, directions=nd2.tolist(), tol=tol, bandwidth=bw)
            if len(dirs) == 1:
                want_v2, want_c2 = want_v2[0], want_c2[0]
            want_v, want_c = want_v2, want_c2
        # known mechanism: coincident points (distance 0) belong to every direction, but for direction sets judged separated the
        # kernel stops at the first matching direction, so such pairs are counted for the first direction only
        nd_used = (dirs * scale) / np.linalg.norm(dirs * scale, axis=1)[:, None]
        if len(dirs) > 1:
            alt_v, alt_c = ov.unstructured(f.tolist(), edges.tolist(), pos.tolist(), kind=kind, directions=nd_used.tolist(), tol=tol, bandwidth=bw, separate=True)
            sep_math = all(math.acos(min(abs(float(np.dot(nd_used[a], nd_used[b]))), 1.0)) >= 2 * tol for a in range(len(dirs)) for b in range(a + 1, len(dirs)))
            has_dup = edges[0] <= 0.0 and any(ov.dist_euclid(pos.tolist(), a, b) == 0.0 for a in range(n) for b in range(a + 1, n))
            if sep_math and has_dup and np.array_equal(np.asarray(gc), np.asarray(alt_c)) and not np.array_equal(np.asarray(gc), np.asarray(want_c)):
                diff_bins = np.flatnonzero(np.any(np.asarray(gc) != np.asarray(want_c), axis=0))
                if list(diff_bins) == [0]:
                    ctx.fail(dict(mech, entry="vario_estimate", what="zero-distance-pairs-only-in-first-direction",
                                  mechanism="directional/separate-dirs/zero-distance-pairs-first-direction-only"),
                             f"counts {np.asarray(gc).tolist()} expected {np.asarray(want_c).tolist()} (coincident points, separated directions)")
                    return
        _compare(ctx, "vario_estimate(direction)", gv, gc, want_v, want_c, dict(mech, entry="vario_estimate"), exact=True)


def check_latlon(ctx, c):
    from gstools.variogram import estimator as est

    rng = np.random.default_rng(c["cseed"])
    n = c["n"]
    lat = rng.uniform(-90, 90, size=n)
    lon = rng.uniform(-360, 360, size=n)
    if n > 4:
        lat[0], lat[1] = 90.0, -90.0
        lon[2], lon[3] = 180.0, -180.0
    pos = np.array([lat, lon])
    f = _fields(rng, int(rng.integers(1, 3)), n, "continuous")
    edges = _edges(rng, pos, "continuous", latlon=True)
    # great-circle distances come out of a chain of libm calls: kernel and oracle agree to the last bit almost always, but a tie
    # with an edge cannot be decided across two implementations - edges on an attained distance are moved off it by 1e-9
    # (inclusivity at exact ties is pinned by the exactly representable Euclidean lattices)
    ds_ll = np.array([ov.dist_haversine(pos.tolist(), i, j) for i in range(n) for j in range(i + 1, n)] or [1.0])
    for k_ in range(len(edges)):
        if edges[k_] > 0 and np.min(np.abs(ds_ll - edges[k_])) <= 1e-13 * edges[k_]:
            edges[k_] *= 1.0 + 1e-9
    kind = "m" if c["est"] == "matheron" else "c"
    want_v, want_c = ov.unstructured(f.tolist(), edges.tolist(), pos.tolist(), kind=kind, distance="h")
    ctx.event("pairs_enumerated", n * (n - 1) // 2)
    ctx.cell(f"latlon/{c['est']}")
    if sum(want_c) == 0:
        ctx.trivial()
    mech = {"entry": "unstructured(haversine)", "estimator": c["est"]}
    gv, gc = est.unstructured(np.ascontiguousarray(f), np.ascontiguousarray(edges), np.ascontiguousarray(pos), kind, "h", None)
    ctx.event("kernel_calls")
    if not _compare(ctx, "kernel", gv, gc, want_v, want_c, mech):
        return
    if c["api"] and not np.all(np.isnan(f)):
        with warnings.catch_warnings():
            warnings.simplefilter("ignore")
            bc, gv, gc = gs.vario_estimate(pos, f if f.shape[0] > 1 else f[0], edges, estimator=c["est"], latlon=True, return_counts=True)
        ctx.event("kernel_calls")
        if not _compare(ctx, "vario_estimate(latlon)", gv, gc, want_v, want_c, dict(mech, entry="vario_estimate")):
            return
        # the same bin array again, now in another distance unit: centres scale, counts and values stay
        gsc = float(rng.choice([6371.0, 57.29577951308232]))
        e2 = np.ascontiguousarray(edges * gsc)
        for rep in range(2):
            with warnings.catch_warnings():
                warnings.simplefilter("ignore")
                bc2, gv2, gc2 = gs.vario_estimate(pos, f if f.shape[0] > 1 else f[0], e2, estimator=c["est"], latlon=True, geo_scale=gsc, return_counts=True)
            ctx.event("kernel_calls")
            # scaling the edges rounds them: pairs exactly on an edge may move; compare only if no distance is that close to an edge
            ds = np.array([ov.dist_haversine(pos.tolist(), i, j) for i in range(pos.shape[1]) for j in range(i + 1, pos.shape[1])] or [1.0])
            if np.min(np.abs(ds[:, None] - edges[None, :])) < 1e-9:
                break
            if not _compare(ctx, f"vario_estimate(latlon,geo_scale,call{rep + 1})", gv2, gc2, want_v, want_c, dict(mech, entry="vario_estimate", geo_scale=True, call=rep + 1), exact=False):
                return


def check_axis(ctx, c):
    rng = np.random.default_rng(c["cseed"])
    ndim = int(rng.integers(1, 4))
    shape = tuple(int(v) for v in rng.integers(1, 9, size=ndim))
    if rng.random() < 0.2:
        shape = (1,) + shape[1:]
    data = rng.integers(-4, 5, size=shape).astype(float) * 0.5 if rng.random() < 0.5 else rng.normal(size=shape)
    mode = c["mode"]
    mask = np.zeros(shape, dtype=bool)
    kw = {}
    if "nan" in mode:
        mask |= rng.random(size=shape) < 0.2
        data[mask] = np.nan
    if mode == "no_data":
        mask |= rng.random(size=shape) < 0.2
        data[mask] = -999.0
        kw["no_data"] = -999.0
    field = data
    if mode.startswith("masked"):
        m2 = rng.random(size=shape) < 0.25
        field = np.ma.array(data, mask=m2)
        mask = mask | m2
    if mode == "all-but-one":
        m2 = np.ones(shape, dtype=bool)
        m2.flat[int(rng.integers(0, m2.size))] = False
        field = np.ma.array(data, mask=m2)
        mask = m2
    if mode == "rows":
        m2 = np.zeros(shape, dtype=bool)
        m2[int(rng.integers(0, shape[0]))] = True
        field = np.ma.array(data, mask=m2)
        mask = m2
    axis = int(rng.integers(0, ndim))
    kind = "m" if c["est"] == "matheron" else "c"
    moved = np.swapaxes(np.where(mask, 0.0, data), 0, axis).reshape(shape[axis], -1)
    mmask = np.swapaxes(mask, 0, axis).reshape(shape[axis], -1)
    want_v, want_c = ov.along_axis(moved.tolist(), mmask.tolist() if mask.any() else None, kind=kind)
    ctx.cell(f"axis/{mode}/ndim{ndim}/{c['est']}")
    ctx.event("pairs_enumerated", int(sum(want_c)))
    if sum(want_c) == 0:
        ctx.trivial()
    with warnings.catch_warnings():
        warnings.simplefilter("ignore")
        got = gs.vario_estimate_axis(field, direction=axis if rng.random() < 0.5 or axis > 2 else "xyz"[axis], estimator=c["est"], **kw)
    ctx.event("kernel_calls")
    _compare(ctx, "vario_estimate_axis", got, None, want_v, None, {"entry": "vario_estimate_axis", "mode": mode, "estimator": c["est"]})


CHECKS = {"iso": check_iso, "directional": check_directional, "latlon": check_latlon, "axis": check_axis}
