"""C06 – kriging interpolates exactly; its variance is non-negative and bounded; duplicates act as their mean."""

import warnings

import numpy as np

from gsverif import common, krigecase as kc
from gsverif.common import gs
from gsverif.oracles import krige as okrige

SHARDS = {"quick": 16, "thorough": 16}
TIMEOUT = {"quick": 1200, "thorough": 5400}
REQUIRED_EVENTS = ["exactness_points", "variance_values", "duplicate_sets"]
MAX_DISCARD_FRAC = 0.4
RULE = (
    "C05's case space restricted to zero measurement error (nugget 0, or nugget > 0 with exact=True) for exactness; targets = "
    "conditioning points and points within 1e-9 of them; arbitrary/far targets for the variance bounds; conditioning sets with "
    "2-4 fold duplicated locations (pseudo-inverse). Ill-conditioned systems (cond > 1e9) are discarded and counted"
)
ASSUMPTIONS = ["O-KRIGE direct solve (numpy.linalg) on the de-duplicated system is the reference for duplicates"]
LEVEL_TEXT = (
    "Runtime monitoring: kriged values and variances are observed at the conditioning locations (and 1e-9 next to them) through "
    "the mean/trend/normalizer round trip, variance bounds at arbitrary targets, and duplicated conditioning points are compared "
    "with the de-duplicated kriging system solved directly."
)
TECHNIQUE = "runtime assertion monitor at conditioning points + oracle comparison on de-duplicated systems"
EPS = 2.3e-16


def generate(tier, seed):
    rng = np.random.default_rng([seed, 6])
    n = {"quick": 40, "thorough": 3000}[tier]
    cases = []
    for rep in range(n):
        for v in kc.VARIANTS:
            c = kc.draw_case(rng, variant=v, zero_error=True)
            cases.append(("exact", c))
        c = kc.draw_case(rng, variant=str(rng.choice(["Simple", "Simple", "Generic"])), zero_error=bool(rng.random() < 0.5))
        if c["variant"] == "Generic":
            c.update(unbiased=False, drift="none", ext_drift=0)
        cases.append(("var_bounds", c))
        c = kc.draw_case(rng, variant=str(rng.choice(["Simple", "Ordinary", "Universal"])), zero_error=True, allow_latlon=False)
        c["model"]["nugget"] = 0.0
        c["exact"] = False
        c["pseudo_inv"] = True
        c["pinv"] = str(rng.choice(["pinv", "pinvh"])) if c["variant"] != "Universal" else "pinv"
        c["norm"], c["norm_p"] = "Normalizer", {}
        c["dup"] = int(rng.integers(2, 5))
        cases.append(("duplicates", c))
    return cases


def _prep(ctx, c):
    try:
        b = kc.build(c)
    except np.linalg.LinAlgError:
        ctx.discard("singular kriging system (plain inverse requested)")
        return None
    if not b.ok:
        ctx.discard("conditioning values not representable")
        return None
    if b.krige.cond_no <= b.krige.drift_no + int(b.unbiased):
        ctx.discard("not more conditions than unbiasedness constraints (singular system)")
        return None
    return b


def check_exact(ctx, c):
    b = _prep(ctx, c)
    if b is None:
        return
    if c["cseed"] % 3 == 0:
        # history: in-place model change followed by the documented refresh
        try:
            c = kc.refresh_with_changed_model(c, b, b.rng)
        except np.linalg.LinAlgError:
            ctx.discard("singular kriging system (plain inverse requested)")
            return
        ctx.event("refreshed_after_model_change")
    est, var, post, cond, _ = kc.oracle(c, b)
    if cond > 1e9 or not np.all(np.isfinite(post)):
        ctx.discard("ill-conditioned kriging system or non-representable result")
        return
    md = c["model"]
    sill = md["var"] + md["nugget"]
    zero_error = md["nugget"] == 0.0 or c["exact"]
    if not zero_error or c["cond_err"] != "nugget":
        ctx.trivial()
        return
    k = b.krige
    ctx.cell(f"exact/{c['variant']}/{c['geo']}/{'exact-flag' if md['nugget'] > 0 else 'no-nugget'}/norm={c['norm']}")
    fdim = b.model.field_dim
    amp_e, amp_v = kc.amplification(c, b)
    scale = max(1.0, common.maxabs(b.z), amp_e)
    tol_raw = 200 * EPS * cond * scale + 1e-12
    for offset in (0.0, 1e-9):
        tp = b.cond_pos.copy()
        if offset:
            if c["geo"].startswith("latlon"):
                continue
            tp = tp + offset * md["len_scale"] * 0 + offset
            if md["nugget"] == 0.0:
                pass  # continuity: values next to the data differ by the slope times 1e-9
        kw = {"ext_drift": b.ext_cond} if b.ext_cond is not None else {}
        with warnings.catch_warnings():
            warnings.simplefilter("ignore")
            with np.errstate(all="ignore"):
                f, v = k(tp if fdim > 1 else tp[0], **kw)
                fr, _ = k(post_process=False, store=False, **kw)
        ctx.event("exactness_points", tp.shape[1])
        # the variance the object keeps (what CondSRF and users read later) obeys the same bounds as the returned one
        try:
            stored_v = np.asarray(k["krige_var"], dtype=float)
        except (KeyError, AttributeError, ValueError):
            stored_v = None
        if stored_v is not None:
            ctx.event("stored_variances_inspected")
            if not (np.all(stored_v >= 0.0) and np.array_equal(stored_v.reshape(np.shape(v)), np.asarray(v))):
                ctx.fail({"what": "stored-kriging-variance!=returned/negative", "variant": c["variant"], "geo": c["geo"]},
                         f"stored krige_var: min {np.min(stored_v)!r}, returned min {np.min(v)!r}, equal {np.array_equal(stored_v.reshape(np.shape(v)), np.asarray(v))}")
                return
        mech = {"variant": c["variant"], "geo": c["geo"], "exact_flag": c["exact"], "nugget": md["nugget"] > 0, "offset": offset > 0,
                "norm": c["norm"] != "Normalizer", "mean": c["mean"], "trend": c["trend"] != "none"}
        # raw (normalised, detrended) values
        # next to a datum the interpolant moves with its gradient, |d(weights)/dx| <= |K^-1| |dk/dx| ~ cond / len_scale
        slope = 0.0 if not offset else 1e-9 * np.sqrt(fdim) * 50 * max(1.0, common.maxabs(b.z)) / min(1.0, md["len_scale"]) * max(1.0, cond / 100.0)
        if md["name"] in ("Exponential", "Stable", "Matern", "TPLExponential", "TPLStable", "Linear", "Circular", "Spherical", "HyperSpherical",
                          "SuperSpherical", "TPLSimple", "TPLGaussian", "Integral") and offset:
            # non-differentiable at the origin: the field next to a datum moves with (offset/len)^(2H) or linearly
            slope = max(slope, 50 * max(1.0, common.maxabs(b.z)) * (1e-9 / md["len_scale"]) ** 0.2)
        e_raw = common.maxabs(np.asarray(fr) - b.z)
        ctx.resolve("exactness_raw_over_tol", e_raw / (tol_raw + slope))
        if not e_raw <= tol_raw + slope:
            ctx.fail(dict(mech, what="kriged-value!=conditioning-value"), f"raw field at the data differs by {e_raw:.3e} (tol {tol_raw + slope:.1e}, cond {cond:.1e}); case {c}")
            return
        e_var = common.maxabs(v)
        tolv = 200 * EPS * cond * max(sill, amp_v) + 1e-12 * sill
        slope_v = 0.0 if not offset else sill * 100 * (1e-9 / md["len_scale"]) ** 0.2
        if not e_var <= tolv + slope_v:
            ctx.fail(dict(mech, what="variance-at-data!=0"), f"kriging variance at the data {e_var:.3e} (tol {tolv + slope_v:.1e}); case {c}")
            return
        # through mean / trend / normalizer
        if not offset:
            e_post = common.maxabs(np.asarray(f) - b.cond_val)
            sc = max(1.0, common.maxabs(b.cond_val))
            if not e_post <= (tol_raw * 100 + 1e-9) * sc:
                ctx.fail(dict(mech, what="post-processed-value!=conditioning-value"), f"field at the data differs by {e_post:.3e}; case {c}")
                return


def check_var_bounds(ctx, c):
    b = _prep(ctx, c)
    if b is None:
        return
    est, var, post, cond, rawvar = kc.oracle(c, b)
    if cond > 1e9:
        ctx.discard("ill-conditioned kriging system")
        return
    md = c["model"]
    sill = md["var"] + md["nugget"]
    k = b.krige
    fdim = b.model.field_dim
    ctx.cell(f"var_bounds/{c['variant']}/{c['geo']}")
    rng = b.rng
    if c["geo"].startswith("latlon"):
        far = kc._positions(rng, c, 6, 1.0)
        near = b.cond_pos[:, :3] + 1e-3
    else:
        far = b.cond_pos[:, :1] + 1e4 * md["len_scale"] * np.sign(rng.normal(size=(fdim, 6)))
        near = b.cond_pos[:, :3] + 1e-3 * md["len_scale"]
    tp = np.concatenate([b.targets, far, near, b.cond_pos], axis=1)
    with warnings.catch_warnings():
        warnings.simplefilter("ignore")
        with np.errstate(all="ignore"):
            f, v = k(tp if fdim > 1 else tp[0], post_process=False)
    v = np.asarray(v)
    ctx.event("variance_values", v.size)
    mech = {"variant": c["variant"], "geo": c["geo"]}
    if np.any(v < 0) or not np.all(np.isfinite(v)):
        ctx.fail(dict(mech, what="negative-kriging-variance"), f"min variance {np.nanmin(v)!r}; case {c}")
        return
    # simple kriging: never above the sill
    if np.max(v) > sill * (1 + 1e-12) + 200 * EPS * cond * sill:
        ctx.fail(dict(mech, what="simple-kriging-variance>sill"), f"max variance {np.max(v)!r} sill {sill!r}; case {c}")
        return
    if not c["geo"].startswith("latlon") and md["name"] not in ("JBessel", "Rational", "Stable", "TPLStable", "TPLExponential", "TPLGaussian", "Integral"):
        # far from the data the variance tends to the sill (models whose correlation is negligible at 1e4 length scales)
        vf = v[b.targets.shape[1]: b.targets.shape[1] + 6]
        if np.min(vf) < sill * (1 - 1e-6):
            ctx.fail(dict(mech, what="far-field-variance!=sill"), f"variance far from the data {np.min(vf)!r}, sill {sill!r}")
            return
        ff = np.asarray(f)[b.targets.shape[1]: b.targets.shape[1] + 6]
        if common.maxabs(ff) > 1e-6 * max(1.0, common.maxabs(b.z)):
            ctx.fail(dict(mech, what="far-field-estimate!=mean"), f"raw simple-kriging estimate far from the data {common.maxabs(ff):.3e}")


def check_duplicates(ctx, c):
    b = _prep(ctx, c)
    if b is None:
        return
    md = c["model"]
    rng = b.rng
    n = b.cond_pos.shape[1]
    k = b.krige
    fdim = b.model.field_dim
    ndup = min(c["dup"], n)
    # duplicate the first location ndup-fold with different values
    idx = int(rng.integers(0, n))
    reps = int(rng.integers(1, 4))
    cp = np.concatenate([b.cond_pos] + [b.cond_pos[:, [idx]]] * reps, axis=1)
    extra = rng.normal(0, 0.6, size=reps)
    z_all = np.concatenate([b.z, extra])
    zbar = b.z.copy()
    zbar[idx] = np.mean(np.concatenate([[b.z[idx]], extra]))
    cv = np.asarray(b.ftrend(*cp), dtype=float) + np.asarray(b.fmean(*cp), dtype=float) + z_all
    # oracle on the de-duplicated system carrying the mean value
    b2 = b
    b2_z = b.z
    b.z = zbar
    est, var, post, cond, _ = kc.oracle(c, b)
    b.z = b2_z
    if cond > 1e7:
        ctx.discard("ill-conditioned de-duplicated system")
        return
    ctx.cell(f"duplicates/{c['variant']}/{c['pinv']}/x{reps + 1}")
    ctx.event("duplicate_sets")
    with warnings.catch_warnings():
        warnings.simplefilter("ignore")
        k.set_condition(cp, cv)
        with np.errstate(all="ignore"):
            f, v = k(b.pos_arg, post_process=False)
    sill = md["var"]
    mech = {"variant": c["variant"], "pinv": c["pinv"], "reps": reps + 1}
    tol = 1e-7 * max(1.0, common.maxabs(zbar)) * max(1.0, cond ** 0.5)
    e = common.maxabs(np.asarray(f).ravel() - est)
    ctx.resolve("duplicates_field_err", e)
    if not e <= tol:
        ctx.fail(dict(mech, what="duplicates!=single-point-with-mean-value"), f"field differs from the de-duplicated system by {e:.3e} (cond {cond:.1e}); case {c}")
        return
    ev = common.maxabs(np.asarray(v).ravel() - var)
    if not ev <= 1e-7 * sill * max(1.0, cond ** 0.5):
        ctx.fail(dict(mech, what="duplicates-variance!=single-point"), f"variance differs by {ev:.3e}; case {c}")


CHECKS = {"exact": check_exact, "var_bounds": check_var_bounds, "duplicates": check_duplicates}
