"""C09 – variogram estimation respects its invariances and preprocessing semantics."""

import math
import warnings

import numpy as np

from gsverif import common
from gsverif.common import gs
from gsverif.oracles import norm as onorm
from gsverif.oracles import rot as orot
from gsverif.oracles import vario as ov

SHARDS = {"quick": 16, "thorough": 16}
TIMEOUT = {"quick": 1200, "thorough": 5400}
REQUIRED_EVENTS = ["related_pairs", "estimator_calls"]
RULE = (
    "pairs of vario_estimate executions related by a transformation: permutation, exact rigid motions (dyadic translation, axis "
    "permutation, reflection, 90-degree rotation), general rotations (guard-banded), field shift/scale, masked/no_data/NaN vs "
    "removed points, structured vs point list, seeded sub-sampling, directions rotated with the coordinates, angles vs vectors, "
    "geo_scale units, standard bins, trend/mean/normalizer preprocessing; discarded = a pair distance within 1e-9 of a bin edge"
    " no_data markers incl. 0; sub-sampling with automatic bins."
)
ASSUMPTIONS = ["relations are checked between two executions of the real estimator; only the transformation is computed by the harness"]
LEVEL_TEXT = (
    "Runtime metamorphic monitoring: two executions of the real estimator related by a transformation whose effect is known "
    "(invariance, a^2 scaling, removal of points, unit conversion, documented seeded sub-sampling, manual preprocessing) are compared; "
    "exact inputs demand bit-identical pair counts, continuous inputs use guard bands around bin edges and cone boundaries."
)
TECHNIQUE = "metamorphic runtime monitoring of related estimator executions (guard-banded)"

RELS = ["permute", "rigid_exact", "rotate", "shift_scale", "removed", "structured", "sampling", "dir_rotate", "angles", "geo_scale",
        "std_bins", "preprocess"]


def generate(tier, seed):
    rng = np.random.default_rng([seed, 9])
    n = {"quick": 120, "thorough": 8000}[tier]
    cases = []
    for rep in range(n):
        for r in RELS:
            cases.append(("relation", {"rel": r, "cseed": int(rng.integers(1 << 30)), "dim": int(rng.integers(1, 4)),
                                       "est": str(rng.choice(["matheron", "cressie"])), "n": int(rng.integers(5, 40))}))
    return cases


def _est(pos, field, edges, **kw):
    with warnings.catch_warnings():
        warnings.simplefilter("ignore")
        return gs.vario_estimate(pos, field, edges, return_counts=True, **kw)


def _guard(pos, edges, rel=1e-9, latlon=False):
    """True if no pair distance lies within a relative band of a bin edge."""
    p = pos.tolist()
    n = pos.shape[1]
    e = np.asarray(edges, dtype=float)
    for i in range(n):
        for j in range(i + 1, n):
            d = ov.dist_haversine(p, i, j) if latlon else ov.dist_euclid(p, i, j)
            if np.any(np.abs(d - e) <= rel * np.maximum(1.0, np.abs(e))):
                return False
    return True


def _same(ctx, rel, a, b, mech, exact_counts=True, vtol=1e-10, scale=1.0):
    ca, cb = np.asarray(a[2]), np.asarray(b[2])
    va, vb = np.asarray(a[1], dtype=float), np.asarray(b[1], dtype=float) * scale
    ctx.event("related_pairs")
    if ca.shape != cb.shape or not np.array_equal(ca, cb):
        ctx.fail(dict(mech, what=f"{rel}:pair-counts-differ"), f"counts {ca.tolist()} vs {cb.tolist()}")
        return False
    if not np.all(np.abs(va - vb) <= vtol * np.maximum(1.0, np.abs(vb))):
        ctx.fail(dict(mech, what=f"{rel}:values-differ"), f"values {va.tolist()} vs {vb.tolist()}")
        return False
    return True


def check_relation(ctx, c):
    rng = np.random.default_rng(c["cseed"])
    rel, dim, n, est = c["rel"], c["dim"], c["n"], c["est"]
    mech = {"relation": rel, "estimator": est}
    ctx.cell(f"{rel}/{est}")
    kw = {"estimator": est}

    def arg(p):
        return p if p.shape[0] > 1 else p[0]

    if rel == "permute":
        pos = rng.uniform(-5, 5, size=(dim, n))
        f = rng.normal(size=(int(rng.integers(1, 3)), n))
        f[0, rng.integers(0, n, size=2)] = np.nan
        edges = np.linspace(0, 6, 7)
        perm = rng.permutation(n)
        a = _est(arg(pos), f, edges, **kw)
        b = _est(arg(pos[:, perm]), f[:, perm], edges, **kw)
        ctx.event("estimator_calls", 2)
        _same(ctx, rel, a, b, mech, vtol=1e-12)
    elif rel == "rigid_exact":
        pos = rng.integers(0, 7, size=(dim, n)).astype(float) * 0.5
        f = rng.integers(-4, 5, size=(1, n)).astype(float) * 0.25
        ds = np.unique([ov.dist_euclid(pos.tolist(), i, j) for i in range(n) for j in range(i + 1, n)])
        edges = np.unique(np.concatenate([[0.0], rng.choice(ds, size=min(5, len(ds)), replace=False), [ds[-1] + 1]]))
        motion = str(rng.choice(["translate", "axis_perm", "reflect", "rot90"])) if dim > 1 else str(rng.choice(["translate", "reflect"]))
        q = pos.copy()
        if motion == "translate":
            q = q + rng.integers(-8, 9, size=(dim, 1)) * 0.25
        elif motion == "axis_perm":
            q = q[rng.permutation(dim)]
        elif motion == "reflect":
            q[int(rng.integers(0, dim))] *= -1.0
        else:
            q = q.copy()
            q[[0, 1]] = np.array([-q[1], q[0]])
        a = _est(arg(pos), f, edges, **kw)
        b = _est(arg(q), f, edges, **kw)
        ctx.event("estimator_calls", 2)
        ctx.cell(f"rigid_exact/{motion}")
        if _same(ctx, rel, a, b, dict(mech, motion=motion), vtol=0.0):
            pass
    elif rel == "rotate":
        if dim == 1:
            ctx.trivial()
            return
        pos = rng.uniform(-5, 5, size=(dim, n))
        f = rng.normal(size=(1, n))
        edges = np.sort(rng.uniform(0.2, 9, size=6))
        m = orot.rot(dim, rng.uniform(-3, 3, size=dim * (dim - 1) // 2))
        q = m @ pos + rng.uniform(-3, 3, size=(dim, 1))
        if not (_guard(pos, edges) and _guard(q, edges)):
            ctx.discard("pair distance within the guard band of a bin edge")
            return
        a = _est(pos, f, edges, **kw)
        b = _est(q, f, edges, **kw)
        ctx.event("estimator_calls", 2)
        _same(ctx, rel, a, b, mech, vtol=1e-12)
    elif rel == "shift_scale":
        pos = rng.uniform(-5, 5, size=(dim, n))
        f = rng.normal(size=(2, n))
        edges = np.linspace(0, 7, 6)
        a = _est(arg(pos), f, edges, **kw)
        cshift = float(rng.uniform(-50, 50))
        b = _est(arg(pos), f + cshift, edges, **kw)
        ctx.event("estimator_calls", 2)
        if not _same(ctx, "shift", a, b, mech, vtol=1e-10 * (1 + abs(cshift))):
            return
        fac = float(rng.choice([2.0, 4.0, 0.25, -2.0, 16.0]))
        b = _est(arg(pos), f * fac, edges, **kw)
        ctx.event("estimator_calls")
        # a^2 scaling, exact for powers of two (Matheron: squares; Cressie: sqrt(|a|)^4)
        exact = est == "matheron"  # Cressie takes pow(., 4) in libm: homogeneous only to an ulp, even for powers of two
        va, vb = np.asarray(b[1]), np.asarray(a[1]) * fac * fac
        ctx.event("related_pairs")
        if not (np.array_equal(va, vb) if exact else np.all(np.abs(va - vb) <= 1e-13 * np.abs(vb))):
            ctx.fail(dict(mech, what="scale:not-a^2"), f"factor {fac}: {va.tolist()} vs {vb.tolist()}")
    elif rel == "removed":
        nf = int(rng.integers(1, 4))
        pos = rng.uniform(-5, 5, size=(dim, n))
        f = rng.normal(size=(nf, n))
        edges = np.linspace(0, 7, 7)
        how = str(rng.choice(["mask_arg", "masked_array", "no_data", "nan", "masked_array+mask_arg", "masked_array(partial)"]))
        ctx.cell(f"removed/{how}/nf{nf}")
        drop = rng.random(size=n) < 0.3
        if drop.all():
            drop[0] = False
        kw2 = dict(kw)
        fin = f.copy()
        if how == "mask_arg":
            kw2["mask"] = drop
            ref_keep = ~drop
            fref = f
        elif how == "masked_array":
            fin = np.ma.array(f, mask=np.broadcast_to(drop, f.shape).copy())
            ref_keep = ~drop
            fref = f
        elif how == "masked_array+mask_arg":
            d2 = rng.random(size=n) < 0.2
            fin = np.ma.array(f, mask=np.broadcast_to(drop, f.shape).copy())
            kw2["mask"] = d2
            ref_keep = ~(drop | d2)
            if not ref_keep.any():
                ctx.discard("everything masked")
                return
            fref = f
        elif how == "masked_array(partial)":
            # masked in some fields only: that value is missing, the point stays
            pm = rng.random(size=f.shape) < 0.25
            fin = np.ma.array(f, mask=pm)
            fref = np.where(pm, np.nan, f)
            ref_keep = ~np.all(pm, axis=0)
            if not ref_keep.any():
                ctx.discard("everything masked")
                return
        elif how == "no_data":
            fin = f.copy()
            marker = [-999.0, 0.0, 0, -1, 1e30][int(rng.integers(0, 5))]  # any value may be the user's marker, incl. 0
            fin[:, drop] = marker
            kw2["no_data"] = marker
            fref = np.where(np.broadcast_to(drop, f.shape), np.nan, f)
            ref_keep = np.ones(n, dtype=bool)
        else:
            fin = f.copy()
            fin[:, drop] = np.nan
            fref = fin
            ref_keep = ~drop
        a = _est(arg(pos), fin if nf > 1 else fin[0], edges, **kw2)
        b = _est(arg(pos[:, ref_keep]), (fref[:, ref_keep] if nf > 1 else fref[0, ref_keep]), edges, **kw)
        ctx.event("estimator_calls", 2)
        _same(ctx, rel, a, b, dict(mech, how=how), vtol=0.0)
    elif rel == "structured":
        axes = [np.sort(rng.uniform(0, 8, size=int(rng.integers(2, 6)))) for _ in range(dim)]
        if rng.random() < 0.35:
            # equally long axes (n^dim grids, e.g. 3x3x3) are the ambiguous corner of the shape detection
            m_eq = int(rng.integers(2, 5))
            axes = [np.sort(rng.uniform(0, 8, size=m_eq)) for _ in range(dim)]
        shape = tuple(len(a) for a in axes)
        nf = int(rng.integers(1, 3))
        f = rng.normal(size=((nf,) + shape) if nf > 1 else shape)
        mask = rng.random(size=shape) < 0.2 if rng.random() < 0.5 else None
        if mask is not None and mask.all():
            mask[...] = False
        edges = np.linspace(0, 7, 6)
        grid = np.array(np.meshgrid(*axes, indexing="ij")).reshape(dim, -1)
        kwm = dict(kw)
        kwl = dict(kw)
        if mask is not None:
            kwm["mask"] = mask
            kwl["mask"] = mask.reshape(-1)
        # the grid values in whatever memory order the user's array has (C, Fortran, a transposed (y, x) raster)
        lay = str(rng.choice(["C", "F", "view"]))
        f_arg = f
        if lay == "F":
            f_arg = np.asfortranarray(f)
        elif lay == "view" and f.ndim >= 2:
            f_arg = np.ascontiguousarray(np.swapaxes(f, -1, -2)).swapaxes(-1, -2)
        ctx.cell(f"structured/layout={lay}")
        a = _est(tuple(axes) if dim > 1 else axes[0], f_arg, edges, mesh_type="structured", **kwm)
        b = _est(arg(grid), f.reshape((nf, -1)) if nf > 1 else f.reshape(-1), edges, **kwl)
        ctx.event("estimator_calls", 2)
        ctx.cell(f"structured/dim{dim}/shape{'x'.join(map(str, shape))}")
        _same(ctx, rel, a, b, dict(mech, dim=dim), vtol=0.0)
    elif rel == "sampling":
        n = max(n, 12)
        pos = rng.uniform(-5, 5, size=(dim, n))
        f = rng.normal(size=(2, n))
        edges = np.linspace(0, 7, 6)
        size = int(rng.integers(3, n))
        sseed = int(rng.integers(0, 1 << 20))
        a = _est(arg(pos), f, edges, sampling_size=size, sampling_seed=sseed, **kw)
        a2 = _est(arg(pos), f, edges, sampling_size=size, sampling_seed=sseed, **kw)
        idx = np.random.RandomState(sseed).choice(np.arange(n), size, replace=False)
        b = _est(arg(pos[:, idx]), f[:, idx], edges, **kw)
        ctx.event("estimator_calls", 3)
        if len(set(idx.tolist())) != size:
            ctx.fail(dict(mech, what="sampling:oracle"), "documented draw has repetitions")
            return
        if not _same(ctx, "sampling(same-seed)", a, a2, mech, vtol=0.0):
            return
        if not _same(ctx, rel, a, b, mech, vtol=0.0):
            return
        # automatic binning belongs to the points that are actually used: the sampled estimate with default bins equals the
        # default-bin estimate of the sampled points
        if size >= 4:
            a3 = _est(arg(pos), f, None, sampling_size=size, sampling_seed=sseed, **kw)
            b3 = _est(arg(pos[:, idx]), f[:, idx], None, **kw)
            ctx.event("estimator_calls", 2)
            if len(a3[0]) != len(b3[0]) or not np.allclose(a3[0], b3[0], rtol=1e-12, atol=0):
                ctx.fail(dict(mech, what="sampling(auto-bins):bin-centres-differ"), f"{len(a3[0])} bins {np.asarray(a3[0])[:3]} vs {len(b3[0])} bins {np.asarray(b3[0])[:3]} for the sampled points")
                return
            if not _same(ctx, "sampling(auto-bins)", a3, b3, mech, vtol=0.0):
                return
        # no repetitions: the total pair count of a wide single bin equals size*(size-1)/2 per field
        wide = _est(arg(pos), f, np.array([0.0, 1e6]), sampling_size=size, sampling_seed=sseed, **kw)
        if int(np.sum(wide[2])) != f.shape[0] * size * (size - 1) // 2:
            ctx.fail(dict(mech, what="sampling:subset-size"), f"pairs {int(np.sum(wide[2]))} for sample size {size}")
    elif rel == "dir_rotate":
        if dim == 1:
            ctx.trivial()
            return
        pos = rng.uniform(-5, 5, size=(dim, n))
        f = rng.normal(size=(1, n))
        edges = np.sort(rng.uniform(0.2, 9, size=5))
        dirs = rng.normal(size=(int(rng.integers(1, 3)), dim))
        tol = float(rng.uniform(0.2, 1.2))
        bw = float(rng.choice([0.0, float(rng.uniform(0.5, 3))]))
        m = orot.rot(dim, rng.uniform(-3, 3, size=dim * (dim - 1) // 2))
        q = m @ pos
        qd = (m @ dirs.T).T
        if not (_guard(pos, edges) and _guard(q, edges) and _dir_guard(pos, dirs, tol, bw) and _dir_guard(q, qd, tol, bw)):
            ctx.discard("pair within the guard band of a bin edge / cone / band boundary")
            return
        kwd = dict(kw, angles_tol=tol, bandwidth=bw if bw > 0 else None)
        a = _est(pos, f, edges, direction=dirs, **kwd)
        b = _est(q, f, edges, direction=qd, **kwd)
        ctx.event("estimator_calls", 2)
        if not _same(ctx, rel, a, b, mech, vtol=1e-12):
            return
        # non-normalised direction vectors
        s = np.exp(rng.uniform(-2, 2, size=(len(dirs), 1)))
        b2 = _est(pos, f, edges, direction=dirs * s, **kwd)
        _same(ctx, "dir_scale", a, b2, mech, vtol=1e-12)
    elif rel == "angles":
        if dim == 1:
            ctx.trivial()
            return
        pos = rng.uniform(-5, 5, size=(dim, n))
        f = rng.normal(size=(1, n))
        edges = np.linspace(0, 8, 6)
        tol = float(rng.uniform(0.2, 1.2))
        if dim == 2:
            az = float(rng.uniform(0, 2 * math.pi))
            angles, vec = az, np.array([math.cos(az), math.sin(az)])
        else:
            az, inc = float(rng.uniform(0, 2 * math.pi)), float(rng.uniform(0.1, math.pi - 0.1))
            angles, vec = [az, inc], np.array([math.sin(inc) * math.cos(az), math.sin(inc) * math.sin(az), math.cos(inc)])
        if not _dir_guard(pos, vec[None, :], tol, 0.0):
            ctx.discard("pair within the guard band of a cone boundary")
            return
        a = _est(pos, f, edges, angles=angles, angles_tol=tol, **kw)
        b = _est(pos, f, edges, direction=vec, angles_tol=tol, **kw)
        ctx.event("estimator_calls", 2)
        _same(ctx, rel, a, b, dict(mech, dim=dim), vtol=1e-12)
    elif rel == "geo_scale":
        lat = rng.uniform(-80, 80, size=n)
        lon = rng.uniform(-180, 180, size=n)
        pos = np.array([lat, lon])
        f = rng.normal(size=(1, n))
        rad_edges = np.sort(rng.uniform(0.05, 2.5, size=6))
        gscale = float(rng.choice([gs.KM_SCALE, gs.DEGREE_SCALE, 123.4, 1.0]))
        if not _guard(pos, rad_edges, latlon=True):
            ctx.discard("pair distance within the guard band of a bin edge")
            return
        a = _est(pos, f, rad_edges, latlon=True, **kw)
        unit_edges = rad_edges * gscale
        b = _est(pos, f, unit_edges, latlon=True, geo_scale=gscale, **kw)
        # the same bins object serves a second estimation (e.g. a loop over time steps)
        b_again = _est(pos, f, unit_edges, latlon=True, geo_scale=gscale, **kw)
        ctx.event("estimator_calls", 3)
        if not _same(ctx, "geo_scale(second call with the same bins)", a, b_again, dict(mech, geo_scale=gscale != 1.0), vtol=1e-12):
            return
        ctx.cell(f"geo_scale/{gscale:g}")
        if not _same(ctx, rel, a, b, dict(mech, geo_scale=gscale != 1.0), vtol=1e-12):
            return
        if not np.allclose(b[0], a[0] * gscale, rtol=1e-13, atol=0):
            ctx.fail(dict(mech, what="geo_scale:bin-centers-unit"), f"{b[0]} vs {a[0] * gscale}")
            return
        # standard bins come in the given unit
        sb_r = gs.standard_bins(pos, latlon=True)
        sb_u = gs.standard_bins(pos, latlon=True, geo_scale=gscale)
        if not np.allclose(sb_u, sb_r * gscale, rtol=1e-12, atol=0):
            ctx.fail(dict(mech, what="geo_scale:standard_bins-unit"), f"{sb_u} vs {sb_r * gscale}")
    elif rel == "std_bins":
        structured = bool(rng.random() < 0.4)
        if structured:
            axes = [np.sort(rng.uniform(0, 8, size=int(rng.integers(2, 6)))) for _ in range(dim)]
            pos_arg = tuple(axes) if dim > 1 else axes[0]
            pts = np.array(np.meshgrid(*axes, indexing="ij")).reshape(dim, -1)
            f = rng.normal(size=tuple(len(a) for a in axes))
            mt = "structured"
        else:
            pts = rng.uniform(-5, 5, size=(dim, n))
            pos_arg, f, mt = arg(pts), rng.normal(size=pts.shape[1]), "unstructured"
        npt = pts.shape[1]
        box = np.array([[np.min(a), np.max(a)] for a in pts])
        diam = float(np.sqrt(np.sum((box[:, 1] - box[:, 0]) ** 2)))
        want = np.linspace(0, diam / 3, int(math.ceil(2 * math.log2(npt) + 1)) + 1)
        got = gs.standard_bins(pos_arg, dim=dim, mesh_type=mt)
        ctx.event("related_pairs")
        if got.shape != want.shape or not np.allclose(got, want, rtol=1e-13, atol=1e-15):
            ctx.fail(dict(mech, what="standard_bins!=documented-rule"), f"{got} vs {want}")
            return
        sel = {}
        if rng.random() < 0.5:
            sel = {"bin_no": int(rng.integers(2, 9)), "max_dist": round(float(rng.uniform(1, 6)), 3)}
            want = np.linspace(0, sel["max_dist"], sel["bin_no"] + 1)
        a = _est(pos_arg, f, None, mesh_type=mt, **sel, **kw)
        b = _est(pos_arg, f, want, mesh_type=mt, **kw)
        ctx.event("estimator_calls", 2)
        if not np.allclose(a[0], b[0], rtol=1e-13, atol=1e-15):
            ctx.fail(dict(mech, what="std_bins:centers"), f"{a[0]} vs {b[0]}")
            return
        _same(ctx, rel, a, b, mech, vtol=1e-12)
    else:  # preprocess
        pos = rng.uniform(0, 8, size=(dim, n))
        structured = False
        nname = str(rng.choice(["Normalizer", "LogNormal", "BoxCox", "YeoJohnson", "Modulus"]))
        p = {} if nname in ("Normalizer", "LogNormal") else {"lmbda": float(rng.choice([0.0, 0.5, 1.3]))}
        normalizer = None if nname == "Normalizer" else getattr(gs.normalizer, nname)(**p)
        mean_v = float(rng.choice([0.0, 0.7]))
        tco = rng.uniform(-0.05, 0.05, size=dim)
        trend = (lambda *x: 0.3 + sum(ci * np.asarray(xi) for ci, xi in zip(tco, x))) if rng.random() < 0.6 else None
        z = rng.normal(0.0, 0.3, size=(int(rng.integers(1, 3)), n))
        tr = trend(*pos) if trend is not None else 0.0
        with np.errstate(all="ignore"):
            f = tr + onorm.inverse(nname, p, z + mean_v)
        if not np.all(np.isfinite(f)):
            ctx.discard("data not representable")
            return
        edges = np.linspace(0, 7, 6)
        ctx.cell(f"preprocess/{nname}/trend={trend is not None}/mean={mean_v != 0}")
        a = _est(arg(pos), f, edges, mean=mean_v if mean_v else None, normalizer=normalizer, trend=trend, **kw)
        with np.errstate(all="ignore"):
            manual = onorm.forward(nname, p, f - tr) - mean_v
        b = _est(arg(pos), manual, edges, **kw)
        ctx.event("estimator_calls", 2)
        _same(ctx, rel, a, b, dict(mech, norm=nname), vtol=1e-9)


def _dir_guard(pos, dirs, tol, bw, rel=1e-7):
    p = pos.tolist()
    n = pos.shape[1]
    dn = dirs / np.linalg.norm(dirs, axis=1)[:, None]
    for i in range(n):
        for j in range(i + 1, n):
            v = pos[:, i] - pos[:, j]
            d = float(np.linalg.norm(v))
            if d == 0:
                continue
            for u in dn:
                sp = float(np.dot(v, u))
                ang = math.acos(min(abs(sp) / d, 1.0))
                if abs(ang - tol) < rel:
                    return False
                if bw > 0:
                    band = float(np.linalg.norm(v - sp * u))
                    if abs(band - bw) < rel * max(1.0, bw):
                        return False
    return True


CHECKS = {"relation": check_relation}
