"""C13 – geographic and spatio-temporal coordinates are consistent across modules."""

import math
import warnings

import numpy as np

from gsverif import common
from gsverif.common import gs
from gsverif.oracles import cov as ocov
from gsverif.oracles import rot as orot

SHARDS = {"quick": 16, "thorough": 16}
TIMEOUT = {"quick": 1200, "thorough": 5400}
REQUIRED_EVENTS = ["sphere_points", "covariances_recovered", "pair_distances_probed", "rotations_applied", "temporal_models"]
RULE = (
    "lat in [-90, 90] incl. poles, lon in [-540, 540] incl. +-180 / date line x geo_scale in {1, degree, km, 123.4} x temporal on/off x "
    "time ratios 0.01..100 x models valid in 3-D; Krige, SRF, CondSRF, vario_estimate(latlon), fit_variogram, standard_bins; "
    "all cases non-trivial"
    " Also: unit equivariance of estimator, fit and Krige(fit_variogram=True) between geo_scale 1 and another unit."
)
ASSUMPTIONS = [
    "sphere geometry from gsverif/oracles/rot.py (xyz by cos/sin; central angle by atan2(|a x b|, a.b), independent of the haversine formula)",
    "closed-form correlations from gsverif/oracles/cov.py",
]
LEVEL_TEXT = (
    "Runtime oracle monitoring: sphere embedding, the covariance actually used by kriging and field generation (recovered from "
    "two-point systems and twin models), the estimator's great-circle distances (one-pair bins), time-axis handling, rotation "
    "invariance on the sphere, Yadrenko fitting and unit handling are compared with independent spherical geometry."
)
TECHNIQUE = "runtime oracle monitor (independent spherical geometry) + metamorphic sphere rotations"

GEO = [1.0, 57.29577951308232, 6371.0, 123.4]
LL_MODELS = ["Gaussian", "Exponential", "Matern", "Integral", "Stable", "Rational", "Spherical", "Cubic", "HyperSpherical", "SuperSpherical",
             "JBessel", "TPLGaussian", "TPLExponential", "TPLStable", "TPLSimple"]


def generate(tier, seed):
    rng = np.random.default_rng([seed, 13])
    n = {"quick": 40, "thorough": 2000}[tier]
    cases = []
    for rep in range(n):
        for chk in ("embedding", "cov_used", "haversine", "temporal", "rotation", "srf_twin", "fit", "bins") + (("units",) if rep % 4 == 0 else ()):
            cases.append((chk, {"cseed": int(rng.integers(1 << 30)), "geo_scale": float(rng.choice(GEO)), "temporal": bool(rng.random() < 0.4),
                                "name": str(rng.choice(LL_MODELS)), "time_anis": round(float(np.exp(rng.uniform(math.log(0.01), math.log(100)))), 4)}))
    return cases


def _latlon(rng, n, hostile=True):
    lat = rng.uniform(-90, 90, size=n)
    lon = rng.uniform(-540, 540, size=n)
    if hostile and n >= 6:
        lat[0], lat[1] = 90.0, -90.0
        lon[2], lon[3] = 180.0, -180.0
        lat[4], lon[4] = 0.0, 0.0
        lon[5] = 179.9999999 if rng.random() < 0.5 else -179.9999999
    return lat, lon


def _model(c, rng, **kw):
    d = common.draw_model(rng, c["name"], 3, "interior", aniso=False, nugget=False)
    d["len_scale"] = round(float(rng.uniform(0.2, 1.2)) * c["geo_scale"], 5)
    par = dict(var=d["var"], len_scale=d["len_scale"], latlon=True, geo_scale=c["geo_scale"])
    par.update(d.get("opt", {}))
    if c["name"] == "JBessel":
        par["nu"] = max(par.get("nu", 1.5), (4 if c["temporal"] else 3) / 2 - 1 + 0.3)
    if c["name"] in ("SuperSpherical", "TPLSimple") and c["temporal"]:
        lo = common.opt_bounds(c["name"], 4)["nu"][0]
        par["nu"] = max(par.get("nu", lo), lo)
    if c["temporal"]:
        par.update(temporal=True, anis=[c["time_anis"]])
    par.update(kw)
    with warnings.catch_warnings():
        warnings.simplefilter("ignore")
        return getattr(gs, c["name"])(**par), d, par


def check_embedding(ctx, c):
    from gstools.tools import geometric as geo

    rng = np.random.default_rng(c["cseed"])
    model, d, par = _model(c, rng)
    R = c["geo_scale"]
    n = 12
    lat, lon = _latlon(rng, n)
    t = rng.uniform(-5, 5, size=n)
    pos = np.array([lat, lon] + ([t] if c["temporal"] else []))
    iso = model.isometrize(pos)
    xyz = orot.latlon_to_xyz(lat, lon, radius=R)
    want = np.vstack([xyz, t[None, :] / c["time_anis"]]) if c["temporal"] else xyz
    ctx.event("sphere_points", n)
    ctx.cell(f"embedding/temporal={c['temporal']}/R={R:g}")
    mech = {"temporal": c["temporal"]}
    e = common.maxabs(iso - want) / max(R, 1.0)
    ctx.resolve("isometrize_rel", e)
    if iso.shape != want.shape or e > 1e-13 * max(1.0, common.maxabs(want) / max(R, 1.0)):
        ctx.fail(dict(mech, what="isometrize!=sphere-point"), f"max deviation {e:.3e} (R={R}, time ratio {c['time_anis']})")
        return
    if not abs(common.maxabs(np.linalg.norm(iso[:3], axis=0) - R)) <= 1e-12 * R:
        ctx.fail(dict(mech, what="not-on-sphere-of-radius-geo_scale"), "radius differs from geo_scale")
        return
    # back and forth: identity as points on the sphere (longitude modulo 360, undefined at the poles)
    back = model.anisometrize(iso)
    xyz2 = orot.latlon_to_xyz(back[0], back[1], radius=R)
    e2 = common.maxabs(xyz2 - xyz) / R
    if e2 > 1e-7:
        ctx.fail(dict(mech, what="anisometrize(isometrize)!=id-on-sphere"), f"3-D deviation {e2:.3e} R")
        return
    if not (np.all(np.abs(back[0]) <= 90 + 1e-12) and np.all(back[1] <= 180 + 1e-12) and np.all(back[1] >= -180 - 1e-12)):
        ctx.fail(dict(mech, what="latlon-out-of-range"), f"lat/lon out of range: {back[:2]}")
        return
    if c["temporal"] and common.maxabs(back[2] - t) > 1e-12 * max(1.0, common.maxabs(t)) * max(1.0, c["time_anis"], 1 / c["time_anis"]):
        ctx.fail(dict(mech, what="time-axis-roundtrip"), f"{back[2]} vs {t}")
        return
    # helper functions
    p3 = geo.latlon2pos(np.array([lat, lon]), radius=R)
    if common.maxabs(p3 - xyz) > 1e-13 * R:
        ctx.fail(dict(mech, what="latlon2pos"), "latlon2pos differs from the sphere embedding")
        return
    ll = geo.pos2latlon(p3, radius=R)
    if common.maxabs(orot.latlon_to_xyz(ll[0], ll[1], radius=R) - xyz) > 1e-7 * R:
        ctx.fail(dict(mech, what="pos2latlon(latlon2pos)"), "round trip moves the point")
        return
    # chordal <-> great circle on [0, pi R]
    z = np.concatenate([[0.0, math.pi * R], rng.uniform(0, math.pi, size=8) * R])
    ch = geo.great_circle_to_chordal(z, R)
    if common.maxabs(ch - 2 * R * np.sin(z / (2 * R))) > 1e-14 * R:
        ctx.fail(dict(mech, what="great_circle_to_chordal"), "chord != 2R sin(zeta/2R)")
        return
    zb = geo.chordal_to_great_circle(ch, R)
    # arcsin is ill-conditioned at the antipode: compare through the chord
    if common.maxabs(2 * R * np.sin(zb / (2 * R)) - ch) > 1e-13 * R or common.maxabs(zb[2:] - z[2:]) > 1e-7 * R:
        ctx.fail(dict(mech, what="chordal_to_great_circle-not-inverse"), f"{zb} vs {z}")


def check_cov_used(ctx, c):
    """The covariance kriging uses between two lat-lon points: a single-datum simple-kriging system returns C(p1,p2)/C(0)."""
    rng = np.random.default_rng(c["cseed"])
    model, d, par = _model(c, rng)
    R = c["geo_scale"]
    lat, lon = _latlon(rng, 8)
    tt = rng.uniform(0, 2, size=8) * c["time_anis"]
    ctx.cell(f"cov_used/{c['name']}/temporal={c['temporal']}")
    d3 = dict(d, dim=4 if c["temporal"] else 3)
    if "nu" in par:
        d3.setdefault("opt", {})
        d3["opt"] = dict(d3.get("opt", {}), nu=par["nu"])
    for i in range(1, 8):
        p1 = [lat[0 if i % 2 else i - 1]], [lon[0 if i % 2 else i - 1]]
        src = 0 if i % 2 else i - 1
        cp = np.array([[lat[src]], [lon[src]]] + ([[tt[src]]] if c["temporal"] else []))
        tp = np.array([[lat[i]], [lon[i]]] + ([[tt[i]]] if c["temporal"] else []))
        with warnings.catch_warnings():
            warnings.simplefilter("ignore")
            k = gs.krige.Simple(model, cp, [1.0], mean=0.0)
            f, v = k(tp)
        zeta = float(orot.great_circle(lat[src], lon[src], lat[i], lon[i]))  # central angle in radians
        chord = 2 * R * math.sin(zeta / 2)
        if c["temporal"]:
            lag = math.sqrt(chord**2 + ((tt[i] - tt[src]) / c["time_anis"]) ** 2)
        else:
            lag = chord
        want = float(ocov.correlation(d3, lag))
        ctx.event("covariances_recovered")
        if not abs(float(f[0]) - want) <= 1e-9 + 1e-8 * abs(want):
            ctx.fail({"what": "kriging-covariance!=yadrenko(great-circle)", "model": c["name"], "temporal": c["temporal"]},
                     f"points ({lat[src]:.4f},{lon[src]:.4f}) / ({lat[i]:.4f},{lon[i]:.4f}): kriging weight {float(f[0])!r}, "
                     f"closed form at the chord {want!r} (R={R})")
            return
        if not c["temporal"]:
            cy = float(model.cor_yadrenko(zeta * R))
            if not abs(cy - want) <= 1e-9 + 1e-8 * abs(want):
                ctx.fail({"what": "cor_yadrenko!=closed-form(chord)", "model": c["name"]}, f"{cy} vs {want}")
                return


def check_haversine(ctx, c):
    """The estimator's great-circle distance of a pair, located by one-pair bins around the oracle distance."""
    rng = np.random.default_rng(c["cseed"])
    R = c["geo_scale"]
    lat, lon = _latlon(rng, 10)
    ctx.cell(f"haversine/R={R:g}")
    for i in range(0, 10, 2):
        a, b = i, i + 1
        zeta = float(orot.great_circle(lat[a], lon[a], lat[b], lon[b]))
        pos = np.array([[lat[a], lat[b]], [lon[a], lon[b]]])
        f = np.array([0.0, 1.0])
        delta = 1e-7
        probes = [([max(zeta - delta, 0.0), zeta + delta], 1), ([zeta + delta, zeta + 3 * delta], 0)]
        if zeta > 2 * delta:
            probes.append(([zeta - 3 * delta, zeta - delta], 0))
        for edges_rad, want in probes:
            edges = np.array(edges_rad) * R
            with warnings.catch_warnings():
                warnings.simplefilter("ignore")
                bc, g, cnt = gs.vario_estimate(pos, f, edges, latlon=True, geo_scale=R, return_counts=True)
                # the bins (given in the unit of geo_scale) stay what they are: a second estimation with the same object agrees
                bc2, g2, cnt2 = gs.vario_estimate(pos, f, edges, latlon=True, geo_scale=R, return_counts=True)
            ctx.event("pair_distances_probed")
            if int(cnt2[0]) != int(cnt[0]) or not np.array_equal(bc, bc2):
                ctx.fail({"what": "bins-unit-changes-between-calls", "geo_scale": R != 1.0},
                         f"second estimation with the same bins object: {int(cnt2[0])} pairs / centers {bc2} vs {int(cnt[0])} / {bc}")
                return
            if int(cnt[0]) != want:
                ctx.fail({"what": "estimator-great-circle-distance", "geo_scale": R != 1.0},
                         f"pair ({lat[a]:.6f},{lon[a]:.6f})-({lat[b]:.6f},{lon[b]:.6f}): oracle central angle {zeta!r} rad; "
                         f"bin {edges_rad} (x{R}) holds {int(cnt[0])} pairs, expected {want}")
                return
            if want == 1 and abs(float(g[0]) - 0.5) > 1e-15:
                ctx.fail({"what": "estimator-value"}, f"gamma {g[0]} for a unit difference")
                return


def check_temporal(ctx, c):
    rng = np.random.default_rng(c["cseed"])
    ctx.event("temporal_models")
    sdim = int(rng.integers(1, 4))
    dim = sdim + 1
    na = dim * (dim - 1) // 2
    angles = [round(float(v), 3) for v in rng.uniform(-3, 3, size=na)]
    anis = [round(float(np.exp(v)), 3) for v in rng.uniform(-1, 1, size=dim - 1)]
    how = str(rng.choice(["constructor", "setter", "dim_change"]))
    ctx.cell(f"temporal/{how}/sdim{sdim}")
    with warnings.catch_warnings():
        warnings.simplefilter("ignore")
        if how == "constructor":
            m = gs.Gaussian(spatial_dim=sdim, temporal=True, anis=anis, angles=angles, len_scale=2.0)
        elif how == "setter":
            m = gs.Gaussian(spatial_dim=sdim, temporal=True, len_scale=2.0)
            m.anis = anis
            m.angles = angles
        else:
            m = gs.Gaussian(spatial_dim=min(sdim + 1, 3), temporal=True, len_scale=2.0, anis=[1.0] + anis[: sdim], angles=angles + [0.3] * 3)
            m.dim = dim
            anis = [float(a) for a in m.anis]
            angles = [float(a) for a in m.angles]
    na_sp = sdim * (sdim - 1) // 2
    mech = {"how": how, "sdim": sdim}
    if m.dim != dim or m.field_dim != dim or m.spatial_dim != sdim:
        ctx.fail(dict(mech, what="temporal-dimensions"), f"dim {m.dim} field_dim {m.field_dim} spatial_dim {m.spatial_dim}")
        return
    if np.any(np.asarray(m.angles)[na_sp:] != 0.0):
        ctx.fail(dict(mech, what="time-rotated-into-space"), f"angles {list(m.angles)} (only the first {na_sp} may be non-zero)")
        return
    x = rng.normal(size=(dim, 7)) * 3
    iso = m.isometrize(x)
    # time row: appended last, divided by the last ratio only, untouched by the spatial rotation
    if common.maxabs(iso[-1] - x[-1] / float(m.anis[-1])) > 1e-13 * max(1.0, common.maxabs(iso[-1])):
        ctx.fail(dict(mech, what="time-axis-scaling"), f"time row {iso[-1]} expected {x[-1] / float(m.anis[-1])}")
        return
    sp_angles = list(np.asarray(m.angles)[:na_sp]) if na_sp else 0.0
    sp_anis = list(np.asarray(m.anis)[: sdim - 1]) if sdim > 1 else 1.0
    want_sp = orot.isometrize(sdim, sp_angles, sp_anis, x[:sdim])
    if common.maxabs(iso[:sdim] - want_sp) > 1e-12 * max(1.0, common.maxabs(want_sp)):
        ctx.fail(dict(mech, what="space-part-depends-on-time"), f"spatial rows differ from the purely spatial transform by {common.maxabs(iso[:sdim] - want_sp):.3e}")
        return
    # a pure time lag has no spatial component: covariance along t equals covariance(t / ratio)
    tlag = np.zeros((dim, 4))
    tlag[-1] = [0.3, 1.0, 2.5, 7.0]
    cs, want = m.cov_spatial(tlag), m.covariance(tlag[-1] / float(m.anis[-1]))
    if common.maxabs(cs - want) > 1e-12:
        ctx.fail(dict(mech, what="pure-time-lag-covariance"), f"{cs} vs {want}")
        return
    # lat-lon models: space stays isotropic whatever is assigned
    with warnings.catch_warnings():
        warnings.simplefilter("ignore")
        ml = gs.Exponential(latlon=True, temporal=True, anis=[0.5, 2.0, c["time_anis"]], angles=[1.0, 2.0, 3.0], geo_scale=c["geo_scale"], len_scale=c["geo_scale"])
        ml.angles = [0.4, 0.5]
        ml.len_scale = [c["geo_scale"], 2 * c["geo_scale"], 3 * c["geo_scale"], 0.5 * c["geo_scale"]]
    if list(ml.anis[:2]) != [1.0, 1.0] or np.any(ml.angles != 0.0) or abs(float(ml.anis[2]) - 0.5) > 1e-15:
        ctx.fail(dict(mech, what="latlon-space-not-isotropic"), f"anis {list(ml.anis)} angles {list(ml.angles)}")


def _rotate_latlon(lat, lon, m):
    xyz = orot.latlon_to_xyz(lat, lon)
    r = m @ xyz
    return np.degrees(np.arcsin(np.clip(r[2], -1, 1))), np.degrees(np.arctan2(r[1], r[0]))


def check_rotation(ctx, c):
    rng = np.random.default_rng(c["cseed"])
    model, d, par = _model(c, rng, nugget=float(rng.choice([0.0, 0.1])))
    n = 9
    lat, lon = rng.uniform(-75, 75, size=n), rng.uniform(-180, 180, size=n)
    tl, tn = rng.uniform(-75, 75, size=7), rng.uniform(-180, 180, size=7)
    vals = rng.normal(size=n)
    m = orot.rot(3, rng.uniform(-3, 3, size=3))
    lat2, lon2 = _rotate_latlon(lat, lon, m)
    tl2, tn2 = _rotate_latlon(tl, tn, m)
    tt_c, tt_t = rng.uniform(0, 3, size=n), rng.uniform(0, 3, size=7)
    variant = str(rng.choice(["Simple", "Ordinary"]))
    ctx.cell(f"rotation/{variant}/{c['name']}")

    def run(a, b, ta, tb):
        cp = np.array([a, b] + ([tt_c] if c["temporal"] else []))
        tp = np.array([ta, tb] + ([tt_t] if c["temporal"] else []))
        with warnings.catch_warnings():
            warnings.simplefilter("ignore")
            k = getattr(gs.krige, variant)(model, cp, vals)
            return k(tp)

    f1, v1 = run(lat, lon, tl, tn)
    f2, v2 = run(lat2, lon2, tl2, tn2)
    ctx.event("rotations_applied")
    e = max(common.maxabs(f1 - f2), common.maxabs(v1 - v2))
    ctx.resolve("rotation_invariance", e)
    # rotating the sphere changes the coordinates by rounding only; the kriging system amplifies that by its condition number
    xyz = orot.latlon_to_xyz(np.asarray(lat, dtype=float), np.asarray(lon, dtype=float), radius=float(model.geo_scale))
    dmat = np.sqrt(np.sum((xyz[:, :, None] - xyz[:, None, :]) ** 2, axis=0))
    if c["temporal"]:
        dmat = np.sqrt(dmat**2 + ((np.asarray(tt_c)[:, None] - np.asarray(tt_c)[None, :]) / float(model.anis[-1])) ** 2)
    with np.errstate(all="ignore"):
        kcond = float(np.linalg.cond(np.asarray(model.covariance(dmat)) + np.eye(len(lat)) * float(model.nugget)))
    if not e <= 1e-7 * max(1.0, kcond / 1e4):
        ctx.fail({"what": "latlon-kriging-not-rotation-invariant", "variant": variant, "temporal": c["temporal"]},
                 f"max change under a rotation of the sphere {e:.3e}")


def check_srf_twin(ctx, c):
    """Fields on lat-lon positions equal the field of the 3-D (4-D) twin model at the embedded positions."""
    rng = np.random.default_rng(c["cseed"])
    model, d, par = _model(c, rng)
    R = c["geo_scale"]
    lat, lon = _latlon(rng, 9)
    t = rng.uniform(0, 4, size=9)
    pos = np.array([lat, lon] + ([t] if c["temporal"] else []))
    kw3 = {k: v for k, v in par.items() if k not in ("latlon", "geo_scale", "temporal", "anis")}
    with warnings.catch_warnings():
        warnings.simplefilter("ignore")
        twin = getattr(gs, c["name"])(dim=4 if c["temporal"] else 3, **kw3)
        gk = dict(mode_no=24, seed=int(rng.integers(1, 1 << 20)))
        if not model.has_ppf:
            gk["sampling"] = "mcmc"
        f1 = gs.SRF(model, **gk)(pos)
        xyz = orot.latlon_to_xyz(lat, lon, radius=R)
        emb = np.vstack([xyz, t[None, :] / c["time_anis"]]) if c["temporal"] else xyz
        f2 = gs.SRF(twin, **gk)(emb)
    ctx.event("covariances_recovered")
    ctx.cell(f"srf_twin/{c['name']}/temporal={c['temporal']}")
    kmax = 1.0
    e = common.maxabs(f1 - f2) / max(1.0, common.maxabs(f2))
    if not e <= 1e-7:
        ctx.fail({"what": "srf(latlon)!=srf(twin at sphere points)", "temporal": c["temporal"], "model": c["name"]}, f"relative difference {e:.3e}")


def check_fit(ctx, c):
    rng = np.random.default_rng(c["cseed"])
    name = str(rng.choice(["Gaussian", "Exponential", "Matern", "Spherical", "Stable"]))
    R = c["geo_scale"]
    kw = dict(latlon=True, geo_scale=R, var=round(float(rng.uniform(0.5, 2)), 3), len_scale=round(float(rng.uniform(0.3, 0.9)) * R, 4),
              nugget=round(float(rng.uniform(0.0, 0.3)), 3))
    truth = getattr(gs, name)(**kw)
    zeta = np.linspace(0.02, 2.6, 30) * R
    y = truth.vario_yadrenko(zeta)
    m = getattr(gs, name)(latlon=True, geo_scale=R)
    guess = {"var": kw["var"] * 1.07, "len_scale": kw["len_scale"] * 0.93, "nugget": kw["nugget"] + 0.02}
    sel = {}
    for o in m.opt_arg:
        sel[o] = False
    with warnings.catch_warnings():
        warnings.simplefilter("ignore")
        res, pcov, r2 = m.fit_variogram(zeta, y, init_guess=guess, return_r2=True, **sel)
    ctx.event("covariances_recovered")
    ctx.cell(f"fit/{name}/R={R:g}")
    mech = {"model": name, "geo_scale": R != 1.0}
    if not r2 > 1 - 1e-8:
        ctx.fail(dict(mech, what="latlon-fit-r2"), f"r2 = {r2!r} for noise-free Yadrenko data")
        return
    for p in ("var", "len_scale", "nugget"):
        if not abs(float(res[p]) - kw[p]) <= 2e-3 * max(kw[p], 0.05 * (R if p == "len_scale" else 1.0)):
            ctx.fail(dict(mech, what="latlon-fit-parameter", par=p), f"{p}: fitted {res[p]} true {kw[p]}")
            return


def check_units(ctx, c):
    """The same lat-lon data analysed in another distance unit (geo_scale): every length comes out scaled by the unit, every field
    and variance is unchanged - through the estimator, the fit, and kriging with fit_variogram=True."""
    rng = np.random.default_rng(c["cseed"])
    R = c["geo_scale"]
    if R == 1.0:
        R = 111.19  # any other unit
    n = int(rng.integers(40, 80))
    cp = np.array([rng.uniform(-60, 60, size=n), rng.uniform(-170, 170, size=n)])
    tp = np.array([rng.uniform(-60, 60, size=7), rng.uniform(-170, 170, size=7)])
    name = str(rng.choice(["Exponential", "Gaussian"]))  # (compact models: the non-smooth objective has several local minima, the two runs may pick different ones)
    with warnings.catch_warnings():
        warnings.simplefilter("ignore")
        truth = gs.Exponential(latlon=True, var=1.0, len_scale=0.4)
        cv = np.asarray(gs.SRF(truth, seed=int(rng.integers(1, 1 << 20)), mode_no=128)(cp))
        out = {}
        for unit in (1.0, R):
            m = getattr(gs, name)(latlon=True, geo_scale=unit, var=0.8, len_scale=0.25 * unit)
            try:
                k = gs.krige.Ordinary(m, cp, cv, fit_variogram=True)
            except (RuntimeError, ValueError):
                ctx.discard("variogram fit failed")
                return
            f, v = k(tp)
            bc, gam = gs.vario_estimate(cp, cv, latlon=True, geo_scale=unit)
            out[unit] = (float(k.model.len_scale), float(k.model.var), float(k.model.nugget), np.asarray(f), np.asarray(v), np.asarray(bc), np.asarray(gam))
    ctx.event("unit_equivariance_compared")
    ctx.cell(f"units/{name}/R={R:g}")
    a, b = out[1.0], out[R]
    mech = {"what": "geo_scale-unit-equivariance", "model": name}
    if not np.allclose(b[5], a[5] * R, rtol=1e-10) or not np.allclose(b[6], a[6], rtol=1e-10, atol=1e-12, equal_nan=True):
        ctx.fail(dict(mech, part="vario_estimate"), f"bin centres / variogram do not scale with the unit {R}: {b[5][:3]} vs {a[5][:3] * R}")
        return
    if not abs(b[0] - a[0] * R) <= 5e-2 * a[0] * R:  # two optimiser runs in different units: default curve_fit tolerances
        ctx.fail(dict(mech, part="krige-fit-len_scale"), f"Krige(fit_variogram=True): fitted len_scale {b[0]!r} in units of {R}, {a[0]!r} in radians (expected ratio {R}, got {b[0] / a[0]:.6g})")
        return
    if not (abs(b[1] - a[1]) <= 5e-2 * max(a[1], 1e-3) and abs(b[2] - a[2]) <= 5e-2 * max(a[1], 1e-3)):
        ctx.fail(dict(mech, part="krige-fit-var"), f"fitted var/nugget depend on the unit: {b[1:3]} vs {a[1:3]}")
        return
    if not (common.maxabs(b[3] - a[3]) <= 1e-1 * max(1.0, common.maxabs(a[3])) and common.maxabs(b[4] - a[4]) <= 1e-1 * max(1.0, common.maxabs(a[4]))):
        ctx.fail(dict(mech, part="krige-field"), f"kriged field / variance depend on the unit: max diff {common.maxabs(b[3] - a[3]):.3e} / {common.maxabs(b[4] - a[4]):.3e}")


def check_bins(ctx, c):
    rng = np.random.default_rng(c["cseed"])
    R = c["geo_scale"]
    n = int(rng.integers(5, 40))
    lat, lon = rng.uniform(-80, 80, size=n), rng.uniform(-180, 180, size=n)
    pos = np.array([lat, lon])
    xyz = orot.latlon_to_xyz(lat, lon, radius=R)
    diag = math.sqrt(sum((np.max(xyz[i]) - np.min(xyz[i])) ** 2 for i in range(3)))
    gc = 2 * R * math.asin(min(diag / (2 * R), 1.0))
    want = np.linspace(0, gc / 3, int(math.ceil(2 * math.log2(n) + 1)) + 1)
    got = gs.standard_bins(pos, latlon=True, geo_scale=R)
    ctx.event("sphere_points", n)
    ctx.cell(f"bins/R={R:g}")
    if got.shape != want.shape or not np.allclose(got, want, rtol=1e-12, atol=0):
        ctx.fail({"what": "standard_bins(latlon)!=documented-rule", "geo_scale": R != 1.0}, f"{got} vs {want}")
        return
    f = rng.normal(size=n)
    with warnings.catch_warnings():
        warnings.simplefilter("ignore")
        a = gs.vario_estimate(pos, f, latlon=True, geo_scale=R, return_counts=True)
        b = gs.vario_estimate(pos, f, want, latlon=True, geo_scale=R, return_counts=True)
    if not (np.array_equal(a[2], b[2]) and np.allclose(a[0], b[0], rtol=1e-12)):
        ctx.fail({"what": "default-bins!=standard_bins", "geo_scale": R != 1.0}, f"{a[2]} vs {b[2]}")
        return
    # a lat-lon *grid* is the set of its nodes: structured and unstructured calls give the same bins (the extremes of the
    # embedded box are generally not at the lat-lon corners)
    la = np.sort(rng.uniform(-70, 70, size=int(rng.integers(2, 6))))
    lo = np.sort(rng.uniform(-175, 175, size=int(rng.integers(2, 6))))
    if rng.random() < 0.5:
        la = np.sort(np.concatenate([la, [-30.0, 30.0]]))
        lo = np.sort(np.concatenate([lo, [-40.0, 40.0]]))
    grid = np.array(np.meshgrid(la, lo, indexing="ij")).reshape(2, -1)
    bs = gs.standard_bins((la, lo), latlon=True, geo_scale=R, mesh_type="structured")
    bu = gs.standard_bins(grid, latlon=True, geo_scale=R)
    ctx.event("sphere_points", grid.shape[1])
    if bs.shape != bu.shape or not np.allclose(bs, bu, rtol=1e-12, atol=0):
        ctx.fail({"what": "standard_bins(latlon,structured)!=bins-of-the-grid-nodes", "geo_scale": R != 1.0},
                 f"structured: {len(bs) - 1} bins up to {bs[-1]:.6g}; nodes as points: {len(bu) - 1} bins up to {bu[-1]:.6g}")


CHECKS = {"embedding": check_embedding, "cov_used": check_cov_used, "haversine": check_haversine, "temporal": check_temporal,
          "rotation": check_rotation, "srf_twin": check_srf_twin, "fit": check_fit, "bins": check_bins, "units": check_units}
