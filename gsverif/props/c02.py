"""C02 – shipped covariance models are positive semi-definite where they claim validity."""

import math
import warnings

import numpy as np
from scipy.integrate import quad
from scipy.special import jv

from gsverif import common
from gsverif.common import gs
from gsverif.oracles import cov as ocov
from gsverif.oracles import rot as orot

SHARDS = {"quick": 16, "thorough": 16}
TIMEOUT = {"quick": 1500, "thorough": 6000}
REQUIRED_EVENTS = ["spectrum_values_scanned", "eigenvalue_problems", "correlation_values"]
MAX_DISCARD_FRAC = 0.3
RULE = (
    "17 classes x dim 1-3 and 4 (3-D space + time) wherever construction raises no invalid-dimension warning x optional arguments at "
    "lower bound, just above it, default, upper bound (incl. the dimension-dependent bounds of JBessel / SuperSpherical / TPLSimple) x "
    "sign scan of the d-dimensional radial Fourier transform on a log grid of wave numbers; eigenvalues of covariance matrices on "
    "lattices, clusters with near duplicates, 1-D equispaced sets, sphere points (Yadrenko), space-time sets; |rho| <= 1, rho(0) = 1"
    " Round and near-round (x(1+-2e-6)) optional-argument values; lat-lon(+time) models scanned in the dimension they report; eigenvalue tolerance includes the measured evaluation error of the entries."
)
ASSUMPTIONS = [
    "the transform is computed by QUADPACK from the model's correlation function (tied to the closed forms by C03); decision "
    "threshold -1e-9 * S(0) (quadrature accuracy 1e-12)",
    "numpy.linalg.eigvalsh; decision threshold -8 n eps lambda_max",
]
LEVEL_TEXT = (
    "Runtime oracle monitoring: the sign of the radial Fourier transform of every accepted model/dimension/parameter set is scanned, "
    "and the smallest eigenvalue of covariance matrices built by the real cov_spatial / cov_yadrenko on hostile point sets is observed."
)
TECHNIQUE = "runtime oracle monitor (sign scan of the recomputed spectrum) + eigenvalue monitor on covariance matrices"
EPS = 2.3e-16


CONFIGS = [("plain", 1), ("plain", 2), ("plain", 3), ("spacetime", 4), ("spacetime", 3), ("latlon", 3), ("latlon_time", 4)]


def _config_kwargs(cfg, dim):
    if cfg == "plain":
        return {"dim": dim}
    if cfg == "spacetime":
        return {"spatial_dim": dim - 1, "temporal": True}
    if cfg == "latlon":
        return {"latlon": True}
    return {"latlon": True, "temporal": True}


def generate(tier, seed):
    rng = np.random.default_rng([seed, 2])
    n = {"quick": 1, "thorough": 4}[tier]
    cases = []
    for name in common.MODELS:
        for cfg, dim in CONFIGS:
            # the bounds are the ones the code itself reports for this configuration ("inside its bounds")
            try:
                with warnings.catch_warnings():
                    warnings.simplefilter("ignore")
                    probe = getattr(gs, name)(**_config_kwargs(cfg, dim))
            except ValueError:
                continue
            bnds = {a: list(probe.arg_bounds[a]) for a in probe.opt_arg}
            plist = [("default", {}, None)]
            for a, b in bnds.items():
                if a == "len_low":
                    continue
                lo, hi = float(b[0]), float(b[1])
                typ = b[2] if len(b) > 2 else "cc"
                lo_v = lo if typ[0] == "c" else lo + 1e-3 * max(1.0, abs(lo))
                if name in ("Stable", "TPLStable") and a == "alpha":
                    lo_v = max(lo_v, 0.3)
                hi_v = hi if typ[1] == "c" else hi - 1e-3
                for v in (lo_v, lo_v + 1e-3, hi_v):
                    plist.append((f"{a}={v:g}", {a: v}, None))
            # "round" parameter values (integers, half-integers): closed-form shortcuts of a model live exactly there
            if cfg == "plain" or tier == "thorough":
                for a, b in bnds.items():
                    typ = b[2] if len(b) > 2 else "cc"
                    for v in common.SPECIAL_VALUES.get(a, []):
                        inside = (v > b[0] or (v == b[0] and typ[0] == "c")) and (v < b[1] or (v == b[1] and typ[1] == "c"))
                        if inside and not (name in ("Stable", "TPLStable") and a == "alpha" and v < 0.3) and (tier == "thorough" or rng.random() < 0.5):
                            o = {a: v}
                            if name == "TPLStable" and a == "alpha":
                                o["hurst"] = min(0.5, 0.45 * v)
                            plist.append((f"{a}={v:g}(round)", o, None))
                            for fac in (1.0 + 2e-6, 1.0 - 2e-6, 1.0 - 4e-9):
                                vv = v * fac
                                if b[0] < vv < b[1] and rng.random() < 0.5:
                                    o2 = dict(o)
                                    o2[a] = vv
                                    plist.append((f"{a}={vv!r}(near-round)", o2, None))
            if "len_low" in bnds:
                for resc in (None, 0.5, 3.0):
                    plist.append((f"len_low=1.5,rescale={resc}", {"len_low": 1.5}, resc))
                    plist.append((f"len_low=0.3,rescale={resc}", {"len_low": 0.3, "hurst": 0.7}, resc))
            else:
                plist.append(("rescale=0.5", {}, 0.5))
            for _ in range(n):
                plist.append(("interior", common.draw_opt(rng, name, dim, "interior"), None))
            for tag, opt, resc in plist:
                c = {"name": name, "cfg": cfg, "dim": dim, "opt": opt, "tag": tag, "rescale": resc}
                if opt and "len_low" not in opt and rng.random() < 0.3:
                    c["via_setter"] = True
                # lat-lon(+time) models live in dimension 3 (4) through the chordal distance: that is the dimension the model reports
                # and in which it must have been accepted; scanned for the default and the drawn parameter sets
                if cfg in ("plain", "spacetime") or tag in ("default", "interior"):
                    cases.append(("spectrum", dict(c)))
                cases.append(("matrices", dict(c, cseed=int(rng.integers(1 << 30)), n={"quick": 60, "thorough": 160}[tier])))
    for name in ("JBessel", "SuperSpherical", "TPLSimple"):
        for d1, d2 in ((1, 2), (1, 3), (2, 3)):
            cases.append(("dim_raised", {"name": name, "d1": d1, "d2": d2}))
    return cases


def _construct(c, **kw):
    """Returns (model, warned, unstable) for the configuration of a case."""
    name, opt = c["name"], c["opt"]
    if c.get("rescale") is not None:
        kw = dict(kw, rescale=c["rescale"])
    with warnings.catch_warnings(record=True) as rec:
        warnings.simplefilter("always")
        if c.get("via_setter") and opt:
            # the same parameter set reached on a live, already used object
            m = getattr(gs, name)(**_config_kwargs(c["cfg"], c["dim"]), **kw)
            with np.errstate(all="ignore"):
                m.correlation(np.array([0.0, 0.5 * float(m.len_scale)]))
            for k_, v_ in opt.items():
                setattr(m, k_, v_)
        else:
            m = getattr(gs, name)(**_config_kwargs(c["cfg"], c["dim"]), **opt, **kw)
    warned = any("not appropriate" in str(w.message) for w in rec)
    unstable = any("unstable" in str(w.message) for w in rec)
    return m, warned, unstable


def transform_d(rho, unit, d, k, upper):
    """(2 pi)^(-d/2) k^(1-d/2) int_0^U r^(d/2) rho(r) J_(d/2-1)(k r) dr in dimensionless lags (unit = 1)."""
    nu = d / 2.0 - 1.0
    if k == 0.0:
        vol = 2 * math.pi ** (d / 2) / math.gamma(d / 2)
        val = quad(lambda x: x ** (d - 1) * rho(x * unit), 0, upper, limit=800, epsabs=1e-15, epsrel=1e-12)[0]
        return vol * val / (2 * math.pi) ** d
    if d == 1:
        return quad(lambda x: rho(x * unit), 0, upper, weight="cos", wvar=k, limit=800, epsabs=1e-15, epsrel=1e-12)[0] / math.pi
    if d == 3:
        return quad(lambda x: x * rho(x * unit), 0, upper, weight="sin", wvar=k, limit=800, epsabs=1e-15, epsrel=1e-12)[0] / (2 * math.pi**2 * k)
    npts = int(min(400, max(4, k * upper / math.pi)))
    brk = [upper * (i + 1) / (npts + 1) for i in range(npts)]
    val = quad(lambda x: x ** (d / 2) * rho(x * unit) * float(jv(nu, k * x)), 0, upper, points=brk, limit=3000, epsabs=1e-15, epsrel=1e-11)[0]
    return (2 * math.pi) ** (-d / 2) * k ** (1 - d / 2) * val


def _upper(rho, unit, d, sup):
    if sup is not None:
        return sup / unit
    for fac in (8, 16, 32, 64, 128, 256, 512, 1024):
        if abs(rho(fac * unit)) * fac ** (d - 1) < 1e-17 and abs(rho(0.7 * fac * unit)) * fac ** (d - 1) < 1e-15:
            return float(fac)
    return None


def check_spectrum(ctx, c):
    name, dim, opt = c["name"], c["dim"], c["opt"]
    try:
        model, warned, unstable = _construct(c)
    except ValueError:
        ctx.discard("parameter set rejected by the bounds of this dimension")
        return
    if warned:
        ctx.event("invalid_dimension_warned")
        ctx.trivial()
        return
    if unstable:
        ctx.discard("documented unstable parameter region (package warns)")
        return
    ctx.cell(f"spectrum/{name}/{c['cfg']}{dim}/{c['tag']}")
    unit = float(model.len_rescaled)

    def rho(r):
        with np.errstate(all="ignore"):
            return float(np.asarray(model.correlation(np.array([abs(r)])))[0])

    desc = {"name": name, "dim": int(model.dim), "len_scale": float(model.len_scale), "opt": {o: float(getattr(model, o)) for o in model.opt_arg},
            "rescale": float(model.rescale)}
    for r in (0.0, 2e-10 * unit, 3e-8 * unit, 1e-5 * unit, 0.41 * unit, 1.7 * unit):
        if not abs(rho(r) - float(ocov.correlation(desc, r))) <= 1e-9 + ocov.evaluation_slack(desc):
            ctx.fail({"what": "correlation!=closed-form", "model": name, "dim": dim}, f"r={r}")
            return
    sup = ocov.support(desc)
    up = _upper(rho, unit, dim, sup)
    if up is None:
        # slowly decaying correlation (Rational with small alpha, JBessel, heavy Stable tails): the sign scan would need the exact
        # asymptotics; the matrix monitor covers these
        ctx.discard("correlation decays too slowly for a finite-range transform")
        return
    nk = {"quick": 14, "thorough": 40}[ctx.tier]
    if name in common.TPL:
        nk = {"quick": 6, "thorough": 16}[ctx.tier]  # superpositions of valid modes; each transform is expensive (exponential integrals)
    ks = np.concatenate([[0.0], np.exp(np.linspace(math.log(0.05), math.log(60.0), nk))])
    s0 = transform_d(rho, unit, dim, 0.0, up)
    worst = (0.0, None)
    for k in ks[1:]:
        val = transform_d(rho, unit, dim, float(k), up)
        ctx.event("spectrum_values_scanned")
        if val < worst[0]:
            worst = (val, float(k))
    ctx.resolve("min_spectrum_over_s0", -worst[0] / abs(s0) if worst[0] < 0 else 0.0)
    if not s0 > 0 or worst[0] < -1e-9 * abs(s0):
        ctx.fail({"what": "negative-spectrum-in-accepted-dimension", "model": name, "dim": dim},
                 f"{name} {opt} dim {dim}: transform of the correlation is {worst[0]:.3e} at k*l = {worst[1]} (S(0) = {s0:.3e}); no invalid-dimension warning")


def _points(rng, dim, n, unit):
    kind = str(rng.choice(["lattice", "cluster", "toeplitz", "random"]))
    if kind == "lattice":
        sp = float(rng.choice([0.05, 0.27, 0.7, 2.0])) * unit
        m = max(2, int(round(n ** (1.0 / dim))))
        axes = [np.arange(m) * sp for _ in range(dim)]
        pts = np.array(np.meshgrid(*axes, indexing="ij")).reshape(dim, -1)[:, :n]
    elif kind == "cluster":
        k = max(2, n // 6)
        cen = rng.uniform(-2, 2, size=(dim, k)) * unit
        pts = cen[:, rng.integers(0, k, size=n)] + rng.normal(0, 0.05 * unit, size=(dim, n))
        pts[:, 1] = pts[:, 0] + 1e-9 * unit
    elif kind == "toeplitz":
        sp = float(rng.choice([0.05, 0.2, 0.5])) * unit
        pts = np.zeros((dim, n))
        pts[0] = np.arange(n) * sp
        if dim > 1:
            d_ = rng.normal(size=(dim, 1))
            pts = (d_ / np.linalg.norm(d_)) * pts[0][None, :]
    else:
        pts = rng.uniform(-2, 2, size=(dim, n)) * unit
    return kind, pts


def check_matrices(ctx, c):
    name, dim, opt = c["name"], c["dim"], c["opt"]
    rng = np.random.default_rng(c["cseed"])
    extra = {}
    latlon = c["cfg"].startswith("latlon")
    if dim > 1 and not latlon:
        extra["anis"] = [round(float(v), 3) for v in np.exp(rng.uniform(-1, 1, size=dim - 1))]
        if c["cfg"] == "plain":
            extra["angles"] = [round(float(v), 3) for v in rng.uniform(-3, 3, size=dim * (dim - 1) // 2)]
    if latlon:
        extra["geo_scale"] = float(rng.choice([1.0, 6371.0]))
        extra["len_scale"] = round(float(rng.uniform(0.1, 1.0)) * extra["geo_scale"], 4)
        if c["cfg"] == "latlon_time":
            extra["anis"] = [round(float(np.exp(rng.uniform(-1, 1))), 3)]
    else:
        extra["len_scale"] = round(float(np.exp(rng.uniform(-1, 1.5))), 3)
    try:
        model, warned, unstable = _construct(c, **extra)
    except ValueError:
        ctx.discard("parameter set rejected by the bounds of this dimension")
        return
    if warned:
        ctx.trivial()
        return
    if unstable:
        ctx.discard("documented unstable parameter region (package warns)")
        return
    n = c["n"]
    unit = float(model.len_rescaled)
    if latlon:
        return _sphere_matrices(ctx, c, model, rng, n)
    kind, pts = _points(rng, dim, n, unit)
    ctx.cell(f"matrices/{name}/{c['cfg']}{dim}/{kind}")
    diff = pts[:, :, None] - pts[:, None, :]
    with np.errstate(all="ignore"):
        cmat = np.asarray(model.cov_spatial(diff.reshape(dim, -1))).reshape(pts.shape[1], pts.shape[1])
        rho = np.asarray(model.correlation(np.concatenate([[0.0], np.exp(rng.uniform(math.log(1e-6), math.log(1e3), size=200)) * unit])))
    ctx.event("correlation_values", rho.size + cmat.size)
    if abs(rho[0] - 1.0) > 1e-12 or np.max(np.abs(rho)) > 1.0 + 1e-12 or not np.all(np.isfinite(rho)):
        ctx.fail({"what": "correlation-exceeds-1-or-rho(0)!=1", "model": name, "dim": dim}, f"rho(0)={rho[0]!r}, max|rho|={np.max(np.abs(rho))!r} ({opt})")
        return
    if np.max(np.abs(cmat)) > float(model.var) * (1.0 + 1e-12):
        ctx.fail({"what": "covariance-exceeds-variance", "model": name, "dim": dim}, f"max|C| = {np.max(np.abs(cmat))!r} > var {model.var!r}")
        return
    cmat = (cmat + cmat.T) / 2
    ev = np.linalg.eigvalsh(cmat)
    ctx.event("eigenvalue_problems")
    lmax = float(ev[-1])
    ctx.resolve("min_eig_over_n_eps_lmax", max(0.0, -float(ev[0]) / (pts.shape[1] * EPS * lmax)))
    if ev[0] < -8 * pts.shape[1] * EPS * lmax:
        # "beyond rounding" includes the rounding of the entries themselves: the evaluation error of the correlation function
        # (special functions next to poles, e.g. exponential integrals of nearly integer order, are good to ~1e-11, not to an ulp)
        # is measured against the arbitrary-precision closed form on a sample of the lags of this matrix
        desc = {"name": name, "dim": int(model.dim), "len_scale": float(model.len_scale), "opt": {o: float(getattr(model, o)) for o in model.opt_arg},
                "rescale": float(model.rescale)}
        iu = np.triu_indices(pts.shape[1], 1)
        riso = np.sqrt(np.sum(np.asarray(model.isometrize(diff.reshape(dim, -1))) ** 2, axis=0)).reshape(pts.shape[1], pts.shape[1])[iu]
        sample = riso[rng.choice(riso.size, size=min(40, riso.size), replace=False)]
        with np.errstate(all="ignore"):
            dfun = max(abs(float(np.asarray(model.correlation(np.array([r])))[0]) - float(ocov.correlation(desc, float(r)))) for r in sample)
        ctx.resolve("entry_evaluation_error", dfun)
        if dfun <= 1e-9 + ocov.evaluation_slack(desc) and ev[0] >= -(8 * pts.shape[1] * EPS * lmax + 4 * pts.shape[1] * float(model.var) * dfun):
            ctx.event("eigenvalue_within_entry_rounding")
            return
        ctx.fail({"what": "covariance-matrix-indefinite", "model": name, "dim": dim, "points": kind},
                 f"{name} {opt} dim {dim} ({kind}, n={pts.shape[1]}): smallest eigenvalue {ev[0]:.3e}, largest {lmax:.3e}")
        return


def _sphere_matrices(ctx, c, model, rng, n):
    """Covariance matrix of lat-lon(-time) points as kriging / field generation see it: through the model's own isometrize."""
    name, opt = c["name"], c["opt"]
    m = min(n, 120)
    i = np.arange(m) + 0.5
    lat = np.degrees(np.arcsin(1 - 2 * i / m))
    lon = np.degrees((math.pi * (1 + 5**0.5) * i) % (2 * math.pi)) - 180.0
    lat[0], lat[-1] = 90.0, -90.0
    lon[1], lon[2] = 180.0, -180.0
    ctx.cell(f"matrices/{name}/{c['cfg']}")
    with np.errstate(all="ignore"):
        rho = np.asarray(model.correlation(np.concatenate([[0.0], np.exp(rng.uniform(math.log(1e-6), math.log(1e3), size=200)) * float(model.len_rescaled)])))
    ctx.event("correlation_values", rho.size)
    if abs(rho[0] - 1.0) > 1e-12 or np.max(np.abs(rho)) > 1.0 + 1e-12 or not np.all(np.isfinite(rho)):
        ctx.fail({"what": "correlation-exceeds-1-or-rho(0)!=1", "model": name, "dim": c["dim"]}, f"rho(0)={rho[0]!r}, max|rho|={np.max(np.abs(rho))!r} ({opt})")
        return
    if c["cfg"] == "latlon":
        zeta = orot.great_circle(lat[:, None], lon[:, None], lat[None, :], lon[None, :]) * model.geo_scale
        with np.errstate(all="ignore"):
            cy = np.asarray(model.cov_yadrenko(zeta))
        pos = np.array([lat, lon])
    else:
        t = rng.uniform(0, 3, size=m) * float(model.len_scale)
        pos = np.array([lat, lon, t])
        cy = None
    iso = model.isometrize(pos)
    dist = np.sqrt(np.sum((iso[:, :, None] - iso[:, None, :]) ** 2, axis=0))
    with np.errstate(all="ignore"):
        cm = np.asarray(model.covariance(dist))
    for label, mat in (("yadrenko", cy), ("isometrized", cm)):
        if mat is None:
            continue
        mat = (mat + mat.T) / 2
        ev = np.linalg.eigvalsh(mat)
        ctx.event("eigenvalue_problems")
        if ev[0] < -8 * m * EPS * float(ev[-1]):
            ctx.fail({"what": "sphere-covariance-matrix-indefinite", "model": name, "cfg": c["cfg"], "via": label},
                     f"{name} {opt} ({c['cfg']}): smallest eigenvalue {ev[0]:.3e} (largest {float(ev[-1]):.3e}) on {m} sphere points")
            return


def check_dim_raised(ctx, c):
    """A model built in a low dimension with nu at that dimension's lower bound, then moved to a higher dimension."""
    name, d1, d2 = c["name"], c["d1"], c["d2"]
    lo1 = common.opt_bounds(name, d1)["nu"][0]
    lo2 = common.opt_bounds(name, d2)["nu"][0]
    nu = lo1 + (0.1 if name == "JBessel" else 0.0)
    with warnings.catch_warnings():
        warnings.simplefilter("ignore")
        m = getattr(gs, name)(dim=d1, nu=nu)
        try:
            m.dim = d2
        except ValueError:
            ctx.event("dim_change_rejected")
            return
    ctx.cell(f"dim_raised/{name}/{d1}->{d2}")
    ctx.event("eigenvalue_problems")
    if nu < lo2:
        ctx.fail({"what": "parameter-below-the-bound-of-the-new-dimension-accepted", "model": name, "mechanism": "set_dim/opt-arg-bounds-not-refreshed"},
                 f"{name}(dim={d1}, nu={nu}).dim = {d2} accepted; {name}(dim={d2}, nu={nu}) is rejected (lower bound {lo2}) and the function is not positive definite there")


CHECKS = {"spectrum": check_spectrum, "matrices": check_matrices, "dim_raised": check_dim_raised}
