"""C01 – generated random fields reproduce the model covariance."""

import math
import warnings

import numpy as np
from scipy.special import ndtr

from gsverif import common
from gsverif.common import gs
from gsverif.oracles import cov as ocov
from gsverif.oracles import rot as orot

SHARDS = {"quick": 16, "thorough": 16}
TIMEOUT = {"quick": 1800, "thorough": 7200}
REQUIRED_EVENTS = ["field_formula_points", "spectral_samples_tested", "amplitude_samples_tested", "fourier_identities", "ensemble_statistics"]
RULE = (
    "17 classes x dims where valid x parameter draws (anisotropy + rotation in 2-D/3-D) x sampling path (ppf inversion / MCMC) x "
    "generator (RandMeth, IncomprRandMeth via C16, Fourier) x mode numbers {N, 4N} x S seeds x lags (4 magnitudes x axes and oblique "
    "directions). The ensemble statement is decomposed: (1) deterministic field formula from the tapped samples, (2) law of the "
    "amplitudes (DKW), (3) law of the wave vectors through E[(1/N) sum cos(k.h)] = rho(h) (Hoeffding for iid inversion samples, 7-sigma "
    "over independent seeds for MCMC), (4) bias bound 2/sqrt(N) at N and 4N, (5) Fourier: deterministic spectral-sum identity and "
    "discretisation allowance, (6) end-to-end ensemble moments of actual SRF outputs"
    " Also: models reached through a dimension change (generator samples vs fresh model); user-requested inversion sampling where the cdf is inverted numerically; nugget noise on 4000 points; ensembles on positions stored once; unrotated anisotropic models."
)
ASSUMPTIONS = [
    "non-asymptotic bounds (Hoeffding, DKW) at a total false-alarm budget of 1e-9 per run; 7-sigma tests on independent per-seed means",
    "closed-form correlations (oracles/cov.py) and the independent coordinate transform (oracles/rot.py)",
]
LEVEL_TEXT = (
    "Runtime monitoring with tapped generator state: every generated field is recomputed from the tapped wave vectors and amplitudes, "
    "the laws of amplitudes and wave vectors are tested against the model correlation with concentration bounds over many seeds, the "
    "Fourier generator's spectral sum is compared with the model covariance, and actual SRF outputs are tested end to end."
)
TECHNIQUE = "tapped-state oracle recomputation + concentration-bound statistical monitors over seeds"

ALPHA_RUN = 1e-9
NTESTS = 4000.0  # Bonferroni divisor (upper bound of tests per run)
INV_MODELS = {"Gaussian": (1, 2), "Exponential": (1, 2)}


def generate(tier, seed):
    rng = np.random.default_rng([seed, 1])
    draws = {"quick": 1, "thorough": 3}[tier]
    cases = []
    for name in common.MODELS:
        for dim in common.valid_dims(name):
            for _ in range(draws):
                d = common.draw_model(rng, name, dim, "interior", aniso=True, nugget=False)
                d["nugget"] = float(rng.choice([0.0, 0.3]))
                if name == "JBessel" and "opt" in d:
                    d["opt"]["nu"] = max(d["opt"]["nu"], dim / 2 - 1 + 0.5)
                if name in ("Stable", "TPLStable") and "opt" in d and "alpha" in d["opt"]:
                    d["opt"]["alpha"] = max(d["opt"]["alpha"], 0.8)
                base = {"model": d, "cseed": int(rng.integers(1 << 30))}
                cases.append(("formula", dict(base, gen=str(rng.choice(["RandMeth", "Fourier"])), structured=bool(rng.random() < 0.3))))
                other = [v for v in common.valid_dims(name) if v != dim]
                if name in ("JBessel", "SuperSpherical", "TPLSimple"):
                    other = [v for v in other if v < dim]  # the drawn nu is valid for dim; its lower bound grows with the dimension
                if other:
                    # the same model reached through a dimension change on a live object must generate what a fresh model generates
                    cases.append(("formula", dict(base, gen=str(rng.choice(["RandMeth", "Fourier"])), structured=False, via_dim=int(rng.choice(other)))))
                cases.append(("wave_vectors", dict(base, N={"quick": 256, "thorough": 1024}[tier], S={"quick": 120, "thorough": 300}[tier])))
    for name, dim in (("Gaussian", 3), ("Exponential", 3), ("Gaussian", 2), ("Exponential", 1)):
        # sampling="inversion" requested by the user: where the model has no ppf the radial cdf is inverted numerically
        d = common.draw_model(rng, name, dim, "interior", aniso=True, nugget=False)
        d["nugget"] = 0.0
        cases.append(("wave_vectors", {"model": d, "cseed": int(rng.integers(1 << 30)), "N": 256, "S": {"quick": 40, "thorough": 150}[tier], "sampling": "inversion"}))
    for name in ("Gaussian", "Exponential", "Matern", "Integral", "TPLGaussian", "HyperSpherical"):
        for dim in (1, 2, 3):
            d = common.draw_model(rng, name, dim, "interior", aniso=True, nugget=False)
            d["nugget"] = 0.0
            d["len_scale"] = round(float(rng.uniform(0.8, 1.5)), 3)
            cases.append(("fourier", {"model": d, "cseed": int(rng.integers(1 << 30))}))
    for name, dim in (("Gaussian", 2), ("Exponential", 1), ("Exponential", 2), ("Exponential", 3), ("Matern", 2), ("Spherical", 3), ("TPLGaussian", 2)):
        d = common.draw_model(rng, name, dim, "interior", aniso=True, nugget=False)
        d["nugget"] = float(rng.choice([0.0, 0.4]))
        cases.append(("end_to_end", {"model": d, "cseed": int(rng.integers(1 << 30)), "S": {"quick": 600, "thorough": 3000}[tier]}))
    for name, dim in (("Gaussian", 2), ("Exponential", 3)):
        # stretched but not rotated, positions stored once (even case seed)
        d = common.draw_model(rng, name, dim, "interior", aniso=True, nugget=False)
        d["nugget"] = 0.0
        d["angles"] = [0.0] * (dim * (dim - 1) // 2)
        d["anis"] = [round(float(v), 3) for v in np.exp(rng.uniform(0.5, 1.2, size=dim - 1) * rng.choice([-1, 1], size=dim - 1))]
        cases.append(("end_to_end", {"model": d, "cseed": 2 * int(rng.integers(1 << 29)), "S": {"quick": 600, "thorough": 3000}[tier]}))
    return cases


def _iso(d, x):
    return orot.isometrize(d["dim"], d.get("angles", 0.0), d.get("anis", 1.0), x)


def _model_via_dim(d, via):
    """The model of description d, built in dimension `via` first and then moved to d['dim'] (geometry re-stated afterwards)."""
    d2 = {k: v for k, v in d.items() if k not in ("anis", "angles")}
    d2["dim"] = via
    with warnings.catch_warnings():
        warnings.simplefilter("ignore")
        model = common.build_model(d2)
        model.spectral_density(np.array([0.5]))  # use it in the old dimension first
        model.dim = d["dim"]
        if d["dim"] > 1:
            model.anis = d.get("anis", 1.0)
            model.angles = d.get("angles", 0.0)
    return model


def _make(d, gen, seed, via_dim=None, **kw):
    model = common.build_model(d) if via_dim is None else _model_via_dim(d, via_dim)
    if gen == "RandMeth" and not model.has_ppf:
        kw.setdefault("sampling", "mcmc")
    with warnings.catch_warnings():
        warnings.simplefilter("ignore")
        return model, gs.SRF(model, generator=gen, seed=seed, **kw)


def check_formula(ctx, c):
    d, gen = c["model"], c["gen"]
    dim = d["dim"]
    rng = np.random.default_rng(c["cseed"])
    if gen == "Fourier":
        if d["name"] == "Rational" and 2 * d.get("opt", {}).get("alpha", 1.0) <= dim + 0.2:
            ctx.discard("correlation not integrable in this dimension: no finite spectrum at k=0")
            return
        kw = dict(period=[float(v) for v in rng.uniform(8, 20, size=dim) * d["len_scale"]], mode_no=[int(v) for v in rng.choice([4, 8, 16] if dim < 3 else [4, 6], size=dim)])
    else:
        kw = dict(mode_no=int(rng.choice([16, 100, 333])))
    gseed = int(rng.integers(1, 1 << 24))
    model, srf = _make(d, gen, gseed, via_dim=c.get("via_dim"), **kw)
    if c.get("via_dim") is not None:
        fresh_model, fresh = _make(d, gen, gseed, **kw)
        mech = {"gen": gen, "model": d["name"], "dim": dim, "history": "dim-change"}
        ctx.event("history_twins_compared")
        if not fresh_model == model:
            ctx.discard("model after the dimension change differs from the fresh model (state is C14's subject)")
            return
        for attr in (("_modes", "_spectrum_factor") if gen == "Fourier" else ("_cov_sample",)):
            a, b = np.asarray(getattr(srf.generator, attr), dtype=float), np.asarray(getattr(fresh.generator, attr), dtype=float)
            if a.shape != b.shape or not np.allclose(a, b, rtol=1e-10, atol=0, equal_nan=True):
                ctx.fail(dict(mech, what=f"generator{attr}-depends-on-model-history"),
                         f"{gen} {d['name']} built in dim {c['via_dim']} then moved to dim {dim}: {attr} differs from a fresh model's "
                         f"(max rel {np.nanmax(np.abs(a - b) / np.maximum(np.abs(b), 1e-300)) if a.shape == b.shape else 'shape'})")
                return
    if c["structured"]:
        axes = [np.sort(rng.uniform(-4, 4, size=int(rng.integers(2, 5)))) * d["len_scale"] for _ in range(dim)]
        x = np.array(np.meshgrid(*axes, indexing="ij")).reshape(dim, -1)
        with warnings.catch_warnings():
            warnings.simplefilter("ignore")
            u = np.asarray(srf.structured(axes if dim > 1 else axes[0])).reshape(-1)
    else:
        # with a nugget the field minus the spectral sum is white noise: enough points to pin its variance to +-16 % (7 sigma)
        x = rng.uniform(-5, 5, size=(dim, 4000 if d["nugget"] > 0 else 9)) * d["len_scale"]
        with warnings.catch_warnings():
            warnings.simplefilter("ignore")
            u = np.asarray(srf(x if dim > 1 else x[0]))
    g = srf.generator
    xi = _iso(d, x)
    z1, z2 = np.asarray(g._z_1), np.asarray(g._z_2)
    ctx.cell(f"formula/{gen}/{d['name']}/dim{dim}")
    mech = {"gen": gen, "model": d["name"], "dim": dim}
    if gen == "Fourier":
        k = np.asarray(g._modes)
        sf = np.asarray(g._spectrum_factor)
        if not np.all(np.isfinite(sf)):
            ctx.discard("spectrum factor not finite (numerical spectrum noise at a grid point)")
            return
        phase = k.T @ xi
        want = np.sum(sf[:, None] * (z1[:, None] * np.cos(phase) + z2[:, None] * np.sin(phase)), axis=0)
        # the factors themselves: sqrt(S(|k|) prod(dk)) with dk = 2 pi anis / period
        e = np.array([1.0] + [float(a) for a in orot.pad_anis(dim, d.get("anis", 1.0))]) if dim > 1 else np.array([1.0])
        dk = 2 * math.pi / np.asarray(kw["period"], dtype=float) * e
        with np.errstate(all="ignore"):
            sf_want = np.sqrt(np.asarray(model.spectrum(np.linalg.norm(k, axis=0))) * float(np.prod(dk)))
        if not np.allclose(sf, sf_want, rtol=1e-12, atol=0, equal_nan=True):
            ctx.fail(dict(mech, what="fourier-spectrum-factor"), f"sqrt(S(|k|) prod dk) mismatch: max rel {np.nanmax(np.abs(sf - sf_want) / np.abs(sf_want)):.3e}")
            return
    else:
        k = np.asarray(g._cov_sample)
        n = k.shape[1]
        phase = k.T @ xi
        want = math.sqrt(d["var"] / n) * np.sum(z1[:, None] * np.cos(phase) + z2[:, None] * np.sin(phase), axis=0)
    if d["nugget"] > 0:
        # the nugget part is white noise from the generator's stream: subtract what the formula leaves and test its moments
        noise = u - want
        ctx.event("field_formula_points", u.size)
        n = u.size
        m, sd = float(np.mean(noise)), math.sqrt(d["nugget"])
        rel = 7 * math.sqrt(2.0 / max(n - 1, 1))
        ctx.resolve("nugget_variance_rel_resolution", rel)
        if n >= 9 and not (abs(m) <= 7 * sd / math.sqrt(n) and abs(float(np.var(noise, ddof=1)) - d["nugget"]) <= max(rel, 0.0) * d["nugget"] + (0 if n >= 1000 else 5.0 * d["nugget"])):
            ctx.fail(dict(mech, what="nugget-part"), f"field minus spectral sum over {n} points: mean {m:.4f}, var {np.var(noise, ddof=1):.4f}; nugget {d['nugget']} (+-{rel * d['nugget']:.4f})")
            return
        if n >= 1000:
            z = np.sort(noise / sd)
            eps = math.sqrt(math.log(2 * NTESTS / ALPHA_RUN) / (2 * n))
            phi = ndtr(z)
            dist = max(float(np.max(np.abs(np.arange(1, n + 1) / n - phi))), float(np.max(np.abs(np.arange(0, n) / n - phi))))
            if not dist <= eps:
                ctx.fail(dict(mech, what="nugget-noise-not-normal(0,nugget)"), f"sup |F_n - Phi| = {dist:.4f} > {eps:.4f} (n={n})")
        return
    kmax = common.maxabs(k)
    tol = (1e-12 + 100 * 2.3e-16 * kmax * common.maxabs(x) * math.sqrt(k.shape[1])) * max(1.0, common.maxabs(want))
    ctx.event("field_formula_points", u.size)
    err = common.maxabs(u - want)
    ctx.resolve("formula_abs", err)
    if u.shape != want.shape or not err <= tol:
        ctx.fail(dict(mech, what="field!=spectral-sum-of-tapped-samples"), f"{gen} {d['name']} dim {dim}: max deviation {err:.3e} (tol {tol:.1e})")


def _lags(d, rng):
    dim = d["dim"]
    ell = d["len_scale"] / ocov.rescale_of(d)
    mags = np.array([0.25, 0.7, 1.5, 3.0]) * ell
    dirs = [np.eye(dim)[i] for i in range(dim)]
    for _ in range(2 if dim > 1 else 0):
        v = rng.normal(size=dim)
        dirs.append(v / np.linalg.norm(v))
    hiso = np.array([m * u for u in dirs for m in mags]).T  # (dim, L) lags in the isotropic coordinates
    # the same lags in the user's (anisotropic, rotated) coordinates: h = M diag(1, e) h_iso
    return orot.aniso_matrix(dim, d.get("angles", 0.0), d.get("anis", 1.0)) @ hiso


def check_wave_vectors(ctx, c):
    d = c["model"]
    dim, N, S = d["dim"], c["N"], c["S"]
    rng = np.random.default_rng(c["cseed"])
    model = common.build_model(d)
    inversion = bool(model.has_ppf) or c.get("sampling") == "inversion"
    numeric = d["name"] not in common.ANALYTIC_SPECTRUM
    if not inversion:
        S = max(40, S // 3)
    lags = _lags(d, rng)
    # user lags scaled along the main axes so that the isotropic lag has the nominal magnitude
    hiso = _iso(d, lags)
    r = np.linalg.norm(hiso, axis=0)
    rho = np.array([float(ocov.correlation(d, v)) for v in r])
    ctx.cell(f"wave_vectors/{d['name']}/dim{dim}/{'inversion' if inversion else 'mcmc'}{'(forced)' if c.get('sampling') else ''}")
    mech = {"model": d["name"], "dim": dim, "path": "inversion" if inversion else "mcmc", "spectrum": "numerical" if numeric else "analytic"}
    results = {}
    if not inversion and numeric:
        S = max(24, S // 2)
    for nmodes in (N, 4 * N):
        cs = np.empty((S, lags.shape[1]))
        zs = []
        kmax = 0.0
        for s in range(S):
            with warnings.catch_warnings():
                warnings.simplefilter("ignore")
                with np.errstate(all="ignore"):
                    g = gs.field.generator.RandMeth(model, mode_no=nmodes, seed=int(rng.integers(1, 1 << 30)), sampling=c.get("sampling") or ("auto" if inversion else "mcmc"))
            k = np.asarray(g._cov_sample)
            if not np.all(np.isfinite(k)):
                ctx.fail(dict(mech, what="non-finite-wave-vector-sampled", mode_no=nmodes),
                         f"{d['name']} {d.get('opt')} dim {dim} N={nmodes}: {int(np.sum(~np.isfinite(k)))} non-finite wave-vector components "
                         f"(every field of this generator is NaN)")
                return
            kmax = max(kmax, common.maxabs(k))
            cs[s] = np.mean(np.cos(k.T @ hiso), axis=0)
            zs.append(np.asarray(g._z_1))
            zs.append(np.asarray(g._z_2))
        ctx.event("spectral_samples_tested", S * nmodes)
        ell = float(model.len_rescaled)
        mean = np.mean(cs, axis=0)
        bias = mean - rho
        if inversion:
            # iid bounded samples: Hoeffding, X in [-1, 1]
            band = math.sqrt(2 * math.log(2 * NTESTS / ALPHA_RUN) / (S * nmodes))
            allowed = band
        else:
            sd = np.std(cs, axis=0, ddof=1)
            band = 7 * sd / math.sqrt(S)
            allowed = band + 2.0 / math.sqrt(nmodes)
        ctx.resolve(f"wave_vector_resolution_{'inv' if inversion else 'mcmc'}", float(np.max(band)))
        worst = int(np.argmax(np.abs(bias) - allowed))
        results[nmodes] = float(np.max(np.abs(bias)))
        if not np.all(np.abs(bias) <= allowed):
            m2 = dict(mech, what="E[(1/N) sum cos(k.h)]!=rho(h)", mode_no=nmodes)
            if (not inversion) and numeric and kmax * ell > 1e4:
                m2["mechanism"] = "randmeth/mcmc/numerical-spectrum/runaway"
            elif (not inversion) and not numeric:
                # heavy-tailed radial pdf: a non-negligible part of the spectral mass lies beyond 1e3 / l, which the short ensemble
                # chain (50 walkers started in [0, 1/l], 20 burn-in steps) cannot reach in proportion
                from scipy.integrate import quad

                with warnings.catch_warnings():
                    warnings.simplefilter("ignore")
                    with np.errstate(all="ignore"):
                        core = quad(lambda q: float(np.asarray(model.spectral_rad_pdf(np.array([q])))[0]), 0, 1e3 / ell, points=[1 / ell, 10 / ell, 100 / ell], limit=600)[0]
                if 1.0 - core > 1e-3:
                    m2["mechanism"] = "randmeth/mcmc/heavy-tail-undersampled"
                    m2["tail_mass_beyond_1e3"] = round(1.0 - core, 4)
            ctx.fail(m2, f"{d['name']} {d.get('opt')} dim {dim} N={nmodes} S={S}: lag |h_iso|={r[worst]:.3f}: ensemble mean of the spectral "
                         f"covariance {mean[worst]:.4f}, model correlation {rho[worst]:.4f} (allowed {np.atleast_1d(allowed)[worst if np.ndim(allowed) else 0]:.4f}); "
                         f"max |k| l = {kmax * ell:.3g}")
            return
        # amplitudes: DKW against the standard normal
        z = np.sort(np.concatenate(zs))
        nz = z.size
        ctx.event("amplitude_samples_tested", nz)
        eps = math.sqrt(math.log(2 * NTESTS / ALPHA_RUN) / (2 * nz))
        ecdf_hi = np.arange(1, nz + 1) / nz
        ecdf_lo = np.arange(0, nz) / nz
        phi = ndtr(z)
        dist = max(float(np.max(np.abs(ecdf_hi - phi))), float(np.max(np.abs(ecdf_lo - phi))))
        ctx.resolve("amplitude_dkw_resolution", eps)
        if not dist <= eps:
            ctx.fail(dict(mech, what="amplitudes-not-standard-normal"), f"sup |F_n - Phi| = {dist:.5f} > {eps:.5f} (n={nz})")
            return
    if len(results) == 2 and not inversion:
        ctx.extra(f"bias_{d['name']}_dim{dim}", results)


def check_fourier(ctx, c):
    d = c["model"]
    dim = d["dim"]
    rng = np.random.default_rng(c["cseed"])
    ell = d["len_scale"] / ocov.rescale_of(d)
    lvec = np.array([1.0] + list(orot.pad_anis(dim, d.get("anis", 1.0)))) * d["len_scale"] if dim > 1 else np.array([d["len_scale"]])
    period = 10.0 * lvec  # >= 8 length scales along every main axis
    results = []
    ctx.cell(f"fourier/{d['name']}/dim{dim}")
    mech = {"model": d["name"], "dim": dim}
    lags = _lags(d, rng)
    hiso = _iso(d, lags)
    rho = np.array([float(ocov.correlation(d, v)) for v in np.linalg.norm(hiso, axis=0)])
    for nm in ((32, 64) if dim == 1 else (16, 32) if dim == 2 else (8, 16)):
        model, srf = _make(d, "Fourier", 1, period=list(period), mode_no=[nm] * dim)
        g = srf.generator
        k, sf = np.asarray(g._modes), np.asarray(g._spectrum_factor)
        if not np.all(np.isfinite(sf)):
            ctx.discard("spectrum factor not finite")
            return
        cov = np.sum(sf[:, None] ** 2 * np.cos(k.T @ hiso), axis=0)
        var0 = float(np.sum(sf**2))
        ctx.event("fourier_identities", lags.shape[1] + 1)
        err = float(np.max(np.abs(cov - d["var"] * rho))) / d["var"]
        kmax_l = float(np.min(np.max(np.abs(k), axis=1))) * ell
        results.append((nm, err, abs(var0 - d["var"]) / d["var"], kmax_l))
    ctx.extra(f"fourier_{d['name']}_dim{dim}", results)
    (n1, e1, v1, k1), (n2, e2, v2, k2) = results
    ctx.resolve("fourier_discretisation_err", e2)
    # discretisation error: does not grow when the mode number doubles; small once the grid reaches k_max * l >= 6
    # spectra with fast decaying tails (the truncated sum converges monotonically); power-law tails (TPL, small nu) only have to
    # stay bounded: the truncation error at non-zero lags oscillates with the cut-off
    smooth = d["name"] in ("Gaussian", "Integral", "Matern")
    if d["name"] == "Matern" and d.get("opt", {}).get("nu", 1) < 2.0:
        smooth = False
    if d["name"] == "Integral" and d.get("opt", {}).get("nu", 1) < 4.0:
        smooth = False
    if (smooth and not e2 <= e1 * 1.05 + 1e-6) or (not smooth and not e2 <= 1.5 * e1 + 0.03):
        ctx.fail(dict(mech, what="fourier-error-grows-with-mode-number"), f"covariance error {e1:.4f} (n={n1}) -> {e2:.4f} (n={n2})")
        return
    if k2 >= 6.0 and smooth and not (e2 <= 0.02 and v2 <= 0.02):
        ctx.fail(dict(mech, what="fourier-covariance!=model-covariance"),
                 f"{d['name']} dim {dim}: period 10 l, {n2} modes per axis (k_max l = {k2:.1f}): covariance error {e2:.4f} var, variance error {v2:.4f}")


def check_end_to_end(ctx, c):
    d = c["model"]
    dim, S = d["dim"], c["S"]
    rng = np.random.default_rng(c["cseed"])
    model = common.build_model(d)
    ell = d["len_scale"] / ocov.rescale_of(d)
    base = rng.uniform(-2, 2, size=(dim, 1)) * ell
    lags = _lags(d, rng)[:, ::3][:, :5]
    x = np.concatenate([base, base + lags], axis=1)
    N = 200
    with warnings.catch_warnings():
        warnings.simplefilter("ignore")
        srf = gs.SRF(model, mean=0.0, mode_no=N, seed=1, **({} if model.has_ppf else {"sampling": "mcmc"}))
        vals = np.empty((S, x.shape[1]))
        stored = c["cseed"] % 2 == 0  # the ensemble idiom of the tutorials: positions set once, then one call per seed
        x_arg = np.array(x if dim > 1 else x[0], dtype=np.double, order="C")
        if stored:
            srf.set_pos(x_arg)
        # seeds of an ensemble: independent draws, or a counter started at a large number (20170519 + i)
        consecutive = (c["cseed"] // 2) % 2 == 0
        base_seed = int(rng.choice([20170519, 2**31 - 5000, 1000000]))
        for s in range(S):
            sd = base_seed + s if consecutive else int(rng.integers(1, 1 << 30))
            if stored:
                vals[s] = srf(seed=sd)
            else:
                vals[s] = srf(x_arg, seed=sd)
        if len({vals[s].tobytes() for s in range(min(S, 50))}) < min(S, 50):
            ctx.fail({"model": d["name"], "dim": dim, "what": "different-seeds-give-identical-fields", "seeds": "consecutive" if consecutive else "random"},
                     f"{min(S, 50) - len({vals[s].tobytes() for s in range(min(S, 50))})} of the first {min(S, 50)} realisations repeat an earlier one")
            return
        if not np.array_equal(x_arg.reshape(x.shape), x):
            ctx.fail({"model": d["name"], "dim": dim, "what": "positions-handed-over-were-modified"}, f"the caller's position array changed during {S} calls (max {common.maxabs(x_arg.reshape(x.shape) - x):.3e})")
            return
        if stored and not np.array_equal(np.asarray(srf.pos, dtype=float).reshape(x.shape), x):
            ctx.fail({"model": d["name"], "dim": dim, "what": "stored-positions-drift-between-calls"}, f"srf.pos differs from the positions set by {common.maxabs(np.asarray(srf.pos, dtype=float).reshape(x.shape) - x):.3e} after {S} calls")
            return
    ctx.cell(f"end_to_end/{d['name']}/dim{dim}")
    ctx.event("ensemble_statistics", 3 * x.shape[1])
    mech = {"model": d["name"], "dim": dim}
    if not np.all(np.isfinite(vals)):
        ctx.fail(dict(mech, what="non-finite-field"), f"{int(np.sum(~np.all(np.isfinite(vals), axis=1)))} of {S} generated fields contain NaN/inf")
        return
    sill = d["var"] + d["nugget"]
    rho = np.array([float(ocov.correlation(d, v)) for v in np.linalg.norm(_iso(d, lags), axis=0)])
    bias_allow = (0.0 if model.has_ppf else 2.0 / math.sqrt(N)) * d["var"]
    # mean
    se = math.sqrt(sill / S)
    if not np.all(np.abs(np.mean(vals, axis=0)) <= 7 * se):
        ctx.fail(dict(mech, what="ensemble-mean!=0"), f"means {np.mean(vals, axis=0)} (7 sigma = {7*se:.4f})")
        return
    # variance (field values are sums of N terms: near-Gaussian; fourth moment <= 3 sill^2 (1 + 1/N))
    v = np.var(vals, axis=0, ddof=1)
    band = 7 * sill * math.sqrt(2.2 / S)
    ctx.resolve("end_to_end_variance_band", band / sill)
    if not np.all(np.abs(v - sill) <= band):
        ctx.fail(dict(mech, what="pointwise-variance!=var+nugget"), f"variances {v}, sill {sill} (+-{band:.4f})")
        return
    # covariance with the base point
    cvs = np.array([np.mean(vals[:, 0] * vals[:, j]) for j in range(1, x.shape[1])])
    band_c = 7 * sill * math.sqrt(2.2 / S) + bias_allow
    if not np.all(np.abs(cvs - d["var"] * rho) <= band_c):
        j = int(np.argmax(np.abs(cvs - d["var"] * rho)))
        ctx.fail(dict(mech, what="ensemble-covariance!=model-covariance"), f"lag #{j}: {cvs[j]:.4f} vs {d['var'] * rho[j]:.4f} (+-{band_c:.4f})")


CHECKS = {"formula": check_formula, "wave_vectors": check_wave_vectors, "fourier": check_fourier, "end_to_end": check_end_to_end}
