"""C03 – model functions are mutually consistent and match their documented closed forms."""

import math
import warnings

import mpmath as mp
import numpy as np

from gsverif import common
from gsverif.common import gs
from gsverif.oracles import cov as ocov
from gsverif.oracles import rot as orot

SHARDS = {"quick": 16, "thorough": 16}
TIMEOUT = {"quick": 1200, "thorough": 5400}
REQUIRED_EVENTS = ["closed_form_values", "identity_values", "integral_scales", "percentile_scales", "user_models"]
RULE = (
    "17 shipped classes x dim 1-3 x seeded parameters (default / interior / bounds' edges) x hostile lag sets "
    "(0, 1e-12.., support edge and its nextafter neighbours, far tail); 4 user subclasses per defining function; "
    "every case is non-trivial (distinct = distinct model/parameter/lag-set description)"
    " Round and near-round optional-argument values per model."
)
ASSUMPTIONS = [
    "gsverif/oracles/cov.py: independent mpmath (30 digits) transcription of the documented formulas",
    "mpmath special functions (besselk, besselj, expint, hyp2f1, quad, quadosc)",
]
LEVEL_TEXT = (
    "Runtime oracle monitoring: values of cor/correlation/covariance/variogram and their nugget/axis/spatial/Yadrenko "
    "variants, integral and percentile scales of the real classes are compared with a second transcription of the documented "
    "closed forms in mpmath on seeded parameter/lag sets; user subclasses defined through each of the four functions are compared with each other."
)
TECHNIQUE = "runtime oracle monitor (mpmath closed forms, mp.quad/quadosc integral scales) + cross-definition comparison"


def generate(tier, seed):
    rng = np.random.default_rng([seed, 3])
    n = {"quick": 2, "thorough": 12}[tier]
    cases = []
    for name in common.MODELS:
        for dim in (1, 2, 3):
            modes = ["default", "edge"] + ["interior"] * n
            for k, mode in enumerate(modes):
                d = common.draw_model(rng, name, dim, opt_mode=mode, aniso=False, nugget=True)
                if rng.random() < 0.3:
                    d["rescale"] = round(float(rng.uniform(0.3, 3.0)), 3)
                cases.append(("closed_form", {"model": d, "lseed": int(rng.integers(1 << 30))}))
                if k < 2 + n // 2:
                    cases.append(("scales", {"model": d, "per": round(float(rng.uniform(0.05, 0.95)), 3)}))
    with_opt = [m for m in common.MODELS if common.opt_bounds(m, 2)]
    # round values of the optional arguments and values a hair beside them (tolerant comparisons in special-function code)
    for name in with_opt:
        dim = int(rng.integers(1, 4))
        if dim > common.max_valid_dim(name):
            dim = common.max_valid_dim(name)
        for arg, (lo, hi, typ) in common.opt_bounds(name, dim).items():
            vals = [v for v in common.SPECIAL_VALUES.get(arg, []) if (v > lo or (v == lo and typ[0] == "c")) and (v < hi or (v == hi and typ[1] == "c"))]
            chosen = vals  # every round value in both tiers (a shortcut for one particular value is the typical slip)
            if np.isfinite(hi):
                chosen = list(chosen) + [hi * 0.9973, lo + (hi - lo) * 0.731]  # large, not round (beyond the interior draws)
            for v in chosen:
                facs = (1.0, 1.0 + 2e-6, 1.0 - 2e-6, 1.0 - 4e-9, 1.0 + 4e-9)  # inside / outside tolerant integer tests of either width
                if tier == "quick":
                    facs = (1.0,) + tuple(facs[1 + int(rng.integers(0, 4))] for _ in range(1))
                for fac in facs:
                    vv = v * fac
                    if not (lo < vv < hi):
                        continue
                    d = common.draw_model(rng, name, dim, opt_mode="default", aniso=False, nugget=False)
                    d["opt"] = {arg: vv}
                    if name == "TPLStable" and arg == "alpha":
                        d["opt"]["hurst"] = min(0.5, 0.45 * vv)
                    if name in ("Stable", "TPLStable") and arg == "alpha" and vv < 0.5:
                        continue
                    cases.append(("closed_form", {"model": d, "lseed": int(rng.integers(1 << 30))}))
    for rep in range(2 * n):
        for name in with_opt:
            dim = int(rng.integers(1, 4))
            d1 = common.draw_model(rng, name, dim, opt_mode="interior", aniso=False, nugget=False)
            d2 = common.draw_model(rng, name, dim, opt_mode="interior", aniso=False, nugget=False)
            cases.append(("scales_history", {"first": d1, "second": d2, "order": int(rng.integers(0, 6))}))
    for rep in range(10 * n + len(common.MODELS)):
        # every class at least once per run, the rest drawn
        name = common.MODELS[rep] if rep < len(common.MODELS) else str(rng.choice(common.MODELS))
        dim = int(rng.integers(1, 4))
        d = common.draw_model(rng, name, dim, opt_mode="interior", aniso=True, nugget=True)
        cases.append(("variants", {"model": d, "lseed": int(rng.integers(1 << 30)),
                                   "geo_scale": float(rng.choice([1.0, 57.29577951308232, 6371.0, 123.4]))}))
    for rep in range(4 * n):
        for how in ("cor", "correlation", "covariance", "variogram"):
            cases.append(("user_model", {"how": how, "dim": int(rng.integers(1, 4)), "expo": round(float(rng.uniform(0.6, 1.9)), 3),
                                         "var": round(float(rng.uniform(0.4, 3)), 3), "len_scale": round(float(rng.uniform(0.4, 6)), 3),
                                         "nugget": float(rng.choice([0.0, 0.4])), "rescale": float(rng.choice([1.0, 0.7, 2.5]))}))
    return cases


def _lags(desc, rng):
    ell = desc["len_scale"]
    s = ocov.rescale_of(desc)
    unit = ell / s
    base = [0.0, 1e-12, 1e-8, 1e-3, 0.03, 0.1, 0.3, 0.7, 0.999, 1.0, 1.001, 1.5, 2.0, 3.0, 5.0, 9.0, 20.0, 60.0, 1e3]
    lags = [b * unit for b in base]
    sup = ocov.support(desc)
    if sup is not None:
        lags += [sup, float(np.nextafter(sup, 0)), float(np.nextafter(sup, np.inf)), sup * (1 - 1e-9), sup * (1 + 1e-9)]
    if desc["name"].startswith("TPL") and desc["name"] != "TPLSimple":
        # asymptotic switch of the exponential integral: x = (r/l)^alpha > 30
        opt = dict(ocov.default_opt(desc["name"], desc["dim"]))
        opt.update(desc.get("opt", {}))
        alpha = ocov.TPL_ALPHA.get(desc["name"], opt.get("alpha", 1.5))
        for x in (29.9, 30.1, 31.0):
            lags.append(unit * x ** (1.0 / alpha))
    lags += [float(v) for v in np.exp(rng.uniform(math.log(1e-4), math.log(50), size=8)) * unit]
    return np.array(sorted(set(lags)))


def _oracle_corr(desc, lags):
    return np.array([float(ocov.correlation(desc, r)) for r in lags])


def _true_var(desc):
    return desc["var"]


def check_closed_form(ctx, c):
    d = c["model"]
    rng = np.random.default_rng(c["lseed"])
    kw = {}
    if "rescale" in d:
        kw["rescale"] = d["rescale"]
    desc = {k: v for k, v in d.items() if k != "rescale"}
    model = common.build_model(desc, **kw)
    lags = _lags(d, rng)
    var, nug = d["var"], d["nugget"]
    sill = var + nug
    rho = _oracle_corr(d, lags)
    ctx.cell(f"cf/{d['name']}/dim{d['dim']}")
    with np.errstate(all="ignore"):
        got = {
            "correlation": np.asarray(model.correlation(lags), dtype=float),
            "covariance": np.asarray(model.covariance(lags), dtype=float),
            "variogram": np.asarray(model.variogram(lags), dtype=float),
        }
    # (1) documented closed form
    ctx.event("closed_form_values", lags.size)
    tol = 1e-10 + 1e-9 * np.abs(rho)
    # exponential-integral models next to an integer order s: E_s is evaluated through Gamma(1-s, x), whose recursion divides by
    # (s - n); the attainable accuracy there is eps / |s - n| (orders within 1e-8 of an integer use E_n itself)
    o = d.get("opt", {})
    order = {"Integral": lambda: 1 + o.get("nu", 1.0) / 2, "TPLGaussian": lambda: 1 + o.get("hurst", 0.5),
             "TPLExponential": lambda: 1 + 2 * o.get("hurst", 0.5), "TPLStable": lambda: 1 + 2 * o.get("hurst", 0.5) / o.get("alpha", 1.5)}.get(d["name"])
    if order is not None:
        dist = abs(order() - round(order()))
        if 0 < dist < 1e-4:
            tol = tol + 50 * 2.3e-16 / max(dist, 1e-8) + (4e-8 if dist <= 1e-8 else 0.0)
    err = np.abs(got["correlation"] - rho)
    ctx.resolve("closed_form_abs", float(np.nanmax(err)))
    bad = ~(err <= tol)
    if np.any(bad):
        i = int(np.argmax(np.where(bad, np.nan_to_num(err, nan=np.inf), 0)))
        ctx.fail({"what": "correlation!=closed-form", "model": d["name"], "dim": d["dim"]},
                 f"{d['name']} {d.get('opt')} r={lags[i]!r}: got {got['correlation'][i]!r} want {rho[i]!r}")
    # |rho| <= 1, rho(0) = 1 are part of C02; here: the variance property
    if abs(model.var - var) > 1e-12 * var or abs(model.sill - sill) > 1e-12 * sill:
        ctx.fail({"what": "var/sill", "model": d["name"]}, f"var {model.var} vs {var}, sill {model.sill} vs {sill}")
    if d["name"] in common.TPL:
        vf = ocov.tpl_var_factor(d)
        if not abs(model.var_raw * vf - var) <= 1e-10 * var:
            ctx.fail({"what": "tpl-var-factor", "model": d["name"]}, f"var_raw*factor = {model.var_raw * vf} vs var {var}")
    # (2) identities between the functions
    ctx.event("identity_values", 3 * lags.size)
    e1 = common.maxabs(got["variogram"] - (var + nug - got["covariance"]))
    e2 = common.maxabs(got["covariance"] - var * got["correlation"])
    if e1 > 1e-12 * sill or e2 > 1e-12 * var:
        ctx.fail({"what": "variogram/covariance/correlation-identities", "model": d["name"]}, f"{e1:.2e} {e2:.2e}")
    s = ocov.rescale_of(d)
    if not (d["name"] in common.TPL and d.get("opt", {}).get("len_low", 0.0) > 0):
        with np.errstate(all="ignore"):
            viacor = np.asarray(model.cor(s * lags / d["len_scale"]), dtype=float)
        e3 = np.abs(viacor - got["correlation"])
        # h = s*r/l is rounded before cor is applied: allow the propagated relative rounding of the argument
        if not np.all(e3 <= 1e-12 + 1e-13 * np.abs(s * lags / d["len_scale"]) * 10 + 2 * ocov.evaluation_slack(d)):
            i = int(np.nanargmax(e3))
            ctx.fail({"what": "correlation(r)!=cor(s*r/l)", "model": d["name"]}, f"r={lags[i]!r}: {viacor[i]!r} vs {got['correlation'][i]!r}")
    if not abs(model.len_rescaled - d["len_scale"] / s) <= 1e-14 * d["len_scale"] / s:
        ctx.fail({"what": "len_rescaled", "model": d["name"]}, f"{model.len_rescaled} vs {d['len_scale']/s}")
    # (3) nugget-aware variants differ only at r = 0
    pos = lags[lags >= 1e-6 * d["len_scale"] / s]
    pos = pos[pos > 1e-7]
    vn, cn = model.vario_nugget(pos), model.cov_nugget(pos)
    if common.maxabs(vn - model.variogram(pos)) > 0 or common.maxabs(cn - model.covariance(pos)) > 0:
        ctx.fail({"what": "nugget-variants-differ-away-from-0", "model": d["name"]}, "vario_nugget/cov_nugget != variogram/covariance for r>0")
    v0, c0 = float(model.vario_nugget(0.0)), float(model.cov_nugget(0.0))
    if v0 != 0.0 or abs(c0 - sill) > 1e-14 * sill:
        ctx.fail({"what": "nugget-variants-at-0", "model": d["name"]}, f"vario_nugget(0)={v0}, cov_nugget(0)={c0}, sill={sill}")
    # (orders within 1e-8 of an integer are evaluated as that integer: E_n(0) = 1/(n-1) instead of 1/(s-1), i.e. 1 +- 1e-8 at zero lag)
    zero_tol = 1e-12 + (4e-8 if (order is not None and 0 < abs(order() - round(order())) <= 1e-8) else 0.0)
    if abs(float(model.variogram(0.0)) - nug) > zero_tol * sill or abs(float(model.covariance(0.0)) - var) > zero_tol * var:
        ctx.fail({"what": "plain-functions-at-0", "model": d["name"]},
                 f"variogram(0)={float(model.variogram(0.0))} (nugget {nug}), covariance(0)={float(model.covariance(0.0))}")
    # (4) input shapes: scalar, 0-d, 2-d and negative lags (distances enter through their absolute value)
    r2 = pos[:6].reshape(2, 3) if pos.size >= 6 else None
    if r2 is not None:
        a = np.asarray(model.correlation(r2))
        if a.shape != (2, 3) or common.maxabs(a.ravel() - np.asarray(model.correlation(r2.ravel()))) > 0:
            ctx.fail({"what": "2d-lag-array", "model": d["name"]}, f"shape {a.shape}")
        neg = np.asarray(model.correlation(-r2.ravel()))
        if common.maxabs(neg - a.ravel()) > 0:
            ctx.fail({"what": "negative-lags-not-symmetric", "model": d["name"]}, "correlation(-r) != correlation(r)")
        sc = float(np.asarray(model.correlation(float(pos[3]))))
        z0 = float(np.asarray(model.correlation(np.array(float(pos[3])))))
        ref = float(np.asarray(model.correlation(pos[3:4]))[0])
        if abs(sc - ref) > 4e-16 or abs(z0 - ref) > 4e-16:  # scalar and vector pow may differ in the last ulp
            ctx.fail({"what": "scalar/0-d-lag", "model": d["name"]}, f"{sc} {z0} {ref}")


def check_scales(ctx, c):
    d = c["model"]
    name = d["name"]
    opt = d.get("opt", {})
    # integrability: Rational needs alpha > 1/2 (the integral diverges at the closed lower bound); JBessel nu > -1/2;
    # slowly decaying cases are kept away from the divergence so that quadrature itself is trustworthy
    if name == "Rational" and opt.get("alpha", 1.0) < 0.8:
        ctx.discard("integral scale diverges / ill-conditioned near alpha=0.5")
        return
    if name == "JBessel" and opt.get("nu", d["dim"] / 2) < -0.3:
        ctx.discard("integral scale conditionally convergent near nu=-1/2")
        return
    if name in ("Stable", "TPLStable") and opt.get("alpha", 1.5) < 0.5:
        ctx.discard("heavy tail")
        return
    model = common.build_model(d)
    ctx.cell(f"scales/{name}/dim{d['dim']}")
    want = float(ocov.integral_scale(d))
    with warnings.catch_warnings():
        warnings.simplefilter("ignore")
        got = float(model.integral_scale)
    numeric = name in {"Cubic", "Linear", "Circular", "Spherical", "HyperSpherical", "SuperSpherical", "TPLGaussian",
                       "TPLExponential", "TPLStable", "TPLSimple"}
    tol = 1e-4 if numeric else 1e-6
    ctx.event("integral_scales")
    err = abs(got - want) / want
    ctx.resolve("integral_scale_rel", err)
    if not err <= tol:
        ctx.fail({"what": "integral_scale!=int(rho)", "model": name, "dim": d["dim"]},
                 f"{name} {opt} len_scale={d['len_scale']}: reported {got!r}, integral of the correlation {want!r}")
    vec = model.integral_scale_vec
    if not abs(vec[0] - got) <= 1e-12 * got:
        ctx.fail({"what": "integral_scale_vec", "model": name}, f"{vec} vs {got}")
    # prescribing the integral scale instead of the length scale
    target = round(0.5 + 3 * (d["len_scale"] % 1.0), 3)
    kw = {k: v for k, v in d.items() if k not in ("name", "opt", "len_scale")}
    kw.update(opt)
    try:
        with warnings.catch_warnings():
            warnings.simplefilter("ignore")
            m2 = getattr(gs, name)(integral_scale=target, **kw)
    except ValueError as exc:
        if name in common.TPL and opt.get("len_low", 0.0) > 0 and "Integral scale could not be set" in str(exc):
            # the integral scale of a TPL model with a lower cut-off is not proportional to len_scale (len_up = len_low +
            # len_scale); the package refuses explicitly instead of returning a wrong length scale
            ctx.event("integral_scale_refused_tpl_len_low")
            m2 = None
        else:
            ctx.fail({"what": "integral_scale=-rejected", "model": name, "dim": d["dim"]}, f"{name} {opt}: {exc}")
            return
    if m2 is not None:
        d2 = dict(d, len_scale=float(m2.len_scale))
        back = float(ocov.integral_scale(d2))
        if not abs(back - target) <= max(10 * tol, 1e-5) * target:
            ctx.fail({"what": "integral_scale=-not-reproduced", "model": name, "dim": d["dim"]},
                     f"{name} {opt}: requested {target}, integral of the resulting correlation {back}")
    # percentile scale
    per = c["per"]
    if name == "JBessel":
        per = min(per, 0.6)  # hole effect: higher fractions are reached more than once
    ps = float(model.percentile_scale(per))
    ctx.event("percentile_scales")
    v = float(model.variogram(ps))
    wantv = per * d["var"] + d["nugget"]
    # independent evaluation of the variogram at that lag
    vo = d["var"] * (1 - float(ocov.correlation(d, ps))) + d["nugget"]
    if abs(v - wantv) > 1e-7 * d["var"] or abs(vo - wantv) > 1e-7 * d["var"] or not ps > 0:
        if not ps > 0:
            ctx.fail({"what": "percentile_scale-not-a-positive-lag", "model": name, "dim": d["dim"]}, f"{name} {opt}: {ps}")
            return
        ctx.fail({"what": "percentile_scale", "model": name, "dim": d["dim"]},
                 f"{name} {opt}: variogram({ps})={v} (oracle {vo}) but per*var+nugget={wantv}")


def _scale_ok(d):
    name, opt = d["name"], d.get("opt", {})
    if name == "Rational" and opt.get("alpha", 1.0) < 0.8:
        return False
    if name == "JBessel" and opt.get("nu", d["dim"] / 2) < -0.3:
        return False
    if name in ("Stable", "TPLStable") and opt.get("alpha", 1.5) < 0.5:
        return False
    return True


def check_scales_history(ctx, c):
    """The reported scales follow in-place parameter changes (read - change - read)."""
    import itertools

    d1, d2 = c["first"], c["second"]
    if not (_scale_ok(d1) and _scale_ok(d2)):
        ctx.discard("integral scale ill-conditioned")
        return
    model = common.build_model(d1)
    name = d1["name"]
    tol = 1e-4
    with warnings.catch_warnings():
        warnings.simplefilter("ignore")
        first = float(model.integral_scale)
        ps_first = float(model.percentile_scale(0.5))
    want1 = float(ocov.integral_scale(d1))
    ctx.event("integral_scales")
    if not abs(first - want1) <= tol * want1:
        ctx.fail({"what": "integral_scale!=int(rho)", "model": name, "dim": d1["dim"]}, f"fresh model: {first} vs {want1}")
    # assign the parameters of the second description one by one, in a seeded order, reading after every step
    steps = [("len_scale", d2["len_scale"]), ("var", d2["var"])] + sorted(d2.get("opt", {}).items())
    steps = list(list(itertools.permutations(steps))[c["order"] % math.factorial(len(steps))])
    cur = dict(d1, opt=dict(d1.get("opt", {})))
    for key, val in steps:
        try:
            with warnings.catch_warnings():
                warnings.simplefilter("ignore")
                setattr(model, key, val)
        except ValueError:
            # e.g. TPLStable: hurst/alpha combinations are all inside their own bounds; any rejection is unexpected
            ctx.fail({"what": "in-bounds-assignment-rejected", "model": name}, f"{key}={val}")
            return
        if key in ("len_scale", "var"):
            cur[key] = val
        else:
            cur["opt"][key] = val
        if not _scale_ok(cur):
            continue
        with warnings.catch_warnings():
            warnings.simplefilter("ignore")
            got = float(model.integral_scale)
            ps = float(model.percentile_scale(0.5))
        want = float(ocov.integral_scale(cur))
        ctx.event("integral_scales")
        ctx.event("scale_reads_after_setter")
        if not abs(got - want) <= tol * want:
            ctx.fail({"what": "integral_scale-stale-after-setter", "model": name, "dim": d1["dim"], "setter": key if key in ("len_scale", "var") else "opt_arg"},
                     f"{name}: after {key}={val}: reported {got}, integral of the correlation {want} (first read {first})")
            return
        vo = cur["var"] * (1 - float(ocov.correlation(cur, ps)))
        if abs(vo - 0.5 * cur["var"]) > 1e-6 * cur["var"] and name != "JBessel":
            ctx.fail({"what": "percentile_scale-stale-after-setter", "model": name, "dim": d1["dim"]},
                     f"{name}: after {key}={val}: variogram({ps})={vo} (oracle) != {0.5*cur['var']}")
            return
    ctx.cell(f"scales_history/{name}")


def check_variants(ctx, c):
    d = c["model"]
    rng = np.random.default_rng(c["lseed"])
    model = common.build_model(d)
    dim = d["dim"]
    ctx.cell(f"variants/{d['name']}/dim{dim}")
    ell = d["len_scale"] / ocov.rescale_of(d)
    t = np.exp(rng.uniform(math.log(0.01), math.log(10), size=7)) * ell
    anis = d.get("anis", [])
    e = [1.0] + orot.pad_anis(dim, anis if anis else 1.0)
    ctx.event("identity_values", 3 * 7 * dim)
    for ax in range(dim):
        want = d["var"] * _oracle_corr(d, t / e[ax])
        got = model.cov_axis(t, axis=ax)
        if common.maxabs(got - want) > 1e-9 * d["var"]:
            ctx.fail({"what": "cov_axis!=closed-form(r/anis)", "model": d["name"], "axis": ax}, f"{common.maxabs(got-want):.2e}")
        if common.maxabs(model.vario_axis(t, axis=ax) - (d["var"] + d["nugget"] - got)) > 1e-12 * (d["var"] + d["nugget"]):
            ctx.fail({"what": "vario_axis-identity", "model": d["name"], "axis": ax}, "vario_axis != sill - cov_axis")
        if common.maxabs(model.cor_axis(t, axis=ax) * d["var"] - got) > 1e-12 * d["var"]:
            ctx.fail({"what": "cor_axis-identity", "model": d["name"], "axis": ax}, "cor_axis*var != cov_axis")
    x = rng.normal(size=(dim, 9)) * 2 * ell
    r = np.linalg.norm(orot.isometrize(dim, d.get("angles", 0.0), anis if anis else 1.0, x), axis=0)
    want = d["var"] * _oracle_corr(d, r)
    got = model.cov_spatial(x)
    # the lag passes through a rotation: relative rounding of r times the slope of the correlation
    if common.maxabs(got - want) > 1e-9 * d["var"]:
        ctx.fail({"what": "cov_spatial!=closed-form(|T x|)", "model": d["name"], "dim": dim}, f"{common.maxabs(got-want):.2e}")
    if common.maxabs(model.vario_spatial(x) - (d["var"] + d["nugget"] - got)) > 1e-12 * (d["var"] + d["nugget"]):
        ctx.fail({"what": "vario_spatial-identity", "model": d["name"]}, "vario_spatial != sill - cov_spatial")
    if common.maxabs(model.cor_spatial(x) * d["var"] - got) > 1e-12 * d["var"]:
        ctx.fail({"what": "cor_spatial-identity", "model": d["name"]}, "")
    # Yadrenko variants on a lat-lon model with the same parameters
    if dim == 3 or True:
        kw = {k: v for k, v in d.items() if k in ("var", "len_scale", "nugget")}
        kw.update(d.get("opt", {}))
        gscale = c["geo_scale"]
        if 3 > common.max_valid_dim(d["name"]):
            return
        with warnings.catch_warnings():
            warnings.simplefilter("ignore")
            try:
                ml = getattr(gs, d["name"])(latlon=True, geo_scale=gscale, **kw)
            except ValueError:
                return
        d3 = dict(d, dim=3)
        d3.pop("anis", None)
        d3.pop("angles", None)
        if d["name"] in ("SuperSpherical", "JBessel", "TPLSimple") and "opt" in d:
            lo = common.opt_bounds(d["name"], 3)["nu"][0]
            if d["opt"]["nu"] < lo:
                return
        zeta = np.array([0.0, 1e-6, 0.01, 0.3, 1.0, 2.0, math.pi]) * gscale
        chord = 2 * gscale * np.sin(zeta / (2 * gscale))
        want = d["var"] * _oracle_corr(d3, chord)
        got = ml.cov_yadrenko(zeta)
        ctx.event("identity_values", zeta.size)
        if common.maxabs(got - want) > 1e-9 * d["var"]:
            ctx.fail({"what": "cov_yadrenko!=closed-form(chord)", "model": d["name"]}, f"{common.maxabs(got-want):.2e} geo_scale={gscale}")
        if common.maxabs(ml.vario_yadrenko(zeta) - (d["var"] + d["nugget"] - got)) > 1e-12 * (d["var"] + d["nugget"]):
            ctx.fail({"what": "vario_yadrenko-identity", "model": d["name"]}, "")
        if common.maxabs(ml.cor_yadrenko(zeta) * d["var"] - got) > 1e-12 * d["var"]:
            ctx.fail({"what": "cor_yadrenko-identity", "model": d["name"]}, "")


def _user_class(how, expo):
    if how == "cor":
        class UserCor(gs.CovModel):
            def cor(self, h):
                return np.exp(-np.power(h, expo))
        return UserCor
    if how == "correlation":
        class UserCorrelation(gs.CovModel):
            def correlation(self, r):
                return np.exp(-np.power(np.abs(r) / self.len_rescaled, expo))
        return UserCorrelation
    if how == "covariance":
        class UserCovariance(gs.CovModel):
            def covariance(self, r):
                return self.var * np.exp(-np.power(np.abs(r) / self.len_rescaled, expo))
        return UserCovariance

    class UserVariogram(gs.CovModel):
        def variogram(self, r):
            return self.var * (1.0 - np.exp(-np.power(np.abs(r) / self.len_rescaled, expo))) + self.nugget
    return UserVariogram


def check_user_model(ctx, c):
    kw = dict(dim=c["dim"], var=c["var"], len_scale=c["len_scale"], nugget=c["nugget"], rescale=c["rescale"])
    m = _user_class(c["how"], c["expo"])(**kw)
    unit = c["len_scale"] / c["rescale"]
    r = np.array([0.0, 1e-9, 0.01, 0.2, 0.7, 1.0, 1.6, 3.0, 8.0, 30.0]) * unit
    rho = np.exp(-np.power(r / unit, c["expo"]))
    ctx.event("user_models")
    ctx.cell(f"user/{c['how']}")
    checks = {
        "correlation": (m.correlation(r), rho, 1.0),
        "covariance": (m.covariance(r), c["var"] * rho, c["var"]),
        "variogram": (m.variogram(r), c["var"] * (1 - rho) + c["nugget"], c["var"] + c["nugget"]),
        "cor": (m.cor(r / unit), rho, 1.0),
    }
    for fn, (got, want, scale) in checks.items():
        e = common.maxabs(np.asarray(got, dtype=float) - want)
        if not e <= 1e-12 * scale * 10:
            ctx.fail({"what": f"user-model-derived-{fn}", "defined_by": c["how"]}, f"defined via {c['how']}: {fn} off by {e:.2e}")
    # scales work for user models as well
    want_is = unit * math.gamma(1 + 1 / c["expo"])
    got_is = float(m.integral_scale)
    if not abs(got_is - want_is) <= 1e-6 * want_is:
        ctx.fail({"what": "user-model-integral-scale", "defined_by": c["how"]}, f"{got_is} vs {want_is}")
    ps = float(m.percentile_scale(0.5))
    if not abs(float(m.variogram(ps)) - (0.5 * c["var"] + c["nugget"])) <= 1e-8 * c["var"]:
        ctx.fail({"what": "user-model-percentile-scale", "defined_by": c["how"]}, f"variogram({ps}) = {float(m.variogram(ps))}")


CHECKS = {
    "closed_form": check_closed_form,
    "scales": check_scales,
    "variants": check_variants,
    "scales_history": check_scales_history,
    "user_model": check_user_model,
}
