"""C05 – kriging estimates and variances solve the kriging equations."""

import warnings

import numpy as np

from gsverif import common, krigecase as kc
from gsverif.common import gs

SHARDS = {"quick": 16, "thorough": 16}
TIMEOUT = {"quick": 1200, "thorough": 5400}
REQUIRED_EVENTS = ["oracle_comparisons", "metamorphic_relations", "systems_solved"]
MAX_DISCARD_FRAC = 0.35
RULE = (
    "kriging variants (Simple, Ordinary, Universal, ExtDrift, Detrended, generic Krige) x 17 models x dim 1-3 (+lat-lon, +time) "
    "x anisotropy/rotation x conditioning layouts (random, cluster, collinear, lattice; n in {1..25}) x nugget / exact / scalar or "
    "per-point measurement error x pseudo-inverse on/off and type x mean/trend/normalizer x chunk sizes x mesh types; "
    "ill-conditioned systems (cond > 1e9) and non-representable data are discarded and counted"
    " Also: kriging with fit_variogram=True (isotropic, directional with anisotropic start, lat-lon in three units) against the system of the object's own fitted model and the estimate-then-fit recipe; variable units 1e-10..1e6 (simple kriging); caller arrays overwritten after construction; drift rasters in C/Fortran order."
)
ASSUMPTIONS = [
    "O-KRIGE (gsverif/oracles/krige.py) solves the documented kriging system with numpy.linalg; the isotropic covariance is "
    "taken from the model (tied to closed forms by C03), distances from the O-ROT isometrisation",
]
LEVEL_TEXT = (
    "Runtime oracle monitoring: field, variance and estimated mean returned by every kriging variant are compared with a direct "
    "solution of the kriging system (tolerance 200*eps*cond*scale), together with metamorphic relations between executions "
    "(chunk size, mesh type, order of targets and conditions, linearity in the data, reproduction of constants and drifts)."
)
TECHNIQUE = "runtime oracle monitor (direct kriging solve) + metamorphic relations between executions"

EPS = 2.3e-16


def generate(tier, seed):
    rng = np.random.default_rng([seed, 5])
    n = {"quick": 60, "thorough": 2000}[tier]
    cases = []
    for rep in range(n):
        for v in kc.VARIANTS:
            c = kc.draw_case(rng, variant=v)
            c["structured"] = bool(rng.random() < 0.3)
            cases.append(("oracle", c))
            c2 = kc.draw_case(rng, variant=v)
            c2["rel"] = str(rng.choice(["chunk", "mesh_type", "target_order", "cond_order", "linearity", "reproduce", "only_mean_flags"]))
            cases.append(("relation", c2))
    for rep in range(max(4, n // 3)):
        geo = str(rng.choice(["iso", "aniso", "aniso", "latlon"]))
        cases.append(("fitted", {"geo": geo, "dim": int(rng.choice([2, 3])) if geo == "aniso" else int(rng.choice([1, 2, 3])),
                                 "name": str(rng.choice(["Exponential", "Gaussian", "Spherical", "Stable"])), "variant": str(rng.choice(["Simple", "Ordinary"])),
                                 "geo_scale": float(rng.choice([1.0, 6371.0, 57.29577951308232])), "cseed": int(rng.integers(1 << 30))}))
    return cases


def check_fitted(ctx, c):
    """Kriging with `fit_variogram=True`: whatever model the fit arrives at, estimate and variance solve the kriging system of
    *that* model (the object's own), and the fit is the documented recipe (variogram of the prepared data in the model's geometry)."""
    from gsverif.oracles import krige as okrige
    from gsverif.oracles import rot as orot

    rng = np.random.default_rng(c["cseed"])
    geo, dim = c["geo"], c["dim"]
    latlon = geo == "latlon"
    n = int(rng.integers(40, 90))
    with warnings.catch_warnings():
        warnings.simplefilter("ignore")
        if latlon:
            gsc = c["geo_scale"]
            truth = gs.Exponential(latlon=True, geo_scale=gsc, var=1.0, len_scale=0.35 * gsc)
            cp = np.array([rng.uniform(-60, 60, size=n), rng.uniform(-170, 170, size=n)])
            start = getattr(gs, c["name"])(latlon=True, geo_scale=gsc, var=0.7, len_scale=0.2 * gsc)
            tp = np.array([rng.uniform(-60, 60, size=9), rng.uniform(-170, 170, size=9)])
        else:
            kw = {}
            if geo == "aniso":
                kw["anis"] = [round(float(v), 3) for v in np.exp(rng.uniform(0.4, 1.2, size=dim - 1) * rng.choice([-1, 1], size=dim - 1))]
                kw["angles"] = [round(float(v), 3) for v in rng.uniform(-1.5, 1.5, size=dim * (dim - 1) // 2)]
            truth = gs.Exponential(dim=dim, var=1.0, len_scale=2.0, **kw)
            cp = rng.uniform(0, 12, size=(dim, n))
            skw = dict(kw)
            if geo == "aniso":
                # the start ratios only have to differ from 1 (documented trigger of the directional fit)
                skw["anis"] = [round(float(v), 3) for v in np.exp(rng.uniform(0.3, 1.0, size=dim - 1) * rng.choice([-1, 1], size=dim - 1))]
            start = getattr(gs, c["name"])(dim=dim, var=0.7, len_scale=1.2, **skw)
            tp = rng.uniform(0, 12, size=(dim, 9))
        cv = np.asarray(gs.SRF(truth, seed=int(rng.integers(1, 1 << 20)), mode_no=256)(cp if (latlon or dim > 1) else cp[0])) + 0.3
        import copy

        twin = copy.deepcopy(start)
        try:
            if c["variant"] == "Simple":
                k = gs.krige.Simple(start, cp, cv, mean=0.3, fit_variogram=True)
            else:
                k = gs.krige.Ordinary(start, cp, cv, fit_variogram=True)
        except (RuntimeError, ValueError) as exc:
            ctx.discard(f"variogram fit failed: {str(exc)[:60]}")
            return
        fitted = k.model
        f, v = k(tp if (latlon or dim > 1) else tp[0])
    ctx.cell(f"fitted/{geo}/{c['name']}/{c['variant']}")
    mech = {"variant": c["variant"], "geo": geo, "what": "fitted"}
    # (a) the kriging system of the object's own (fitted) model
    if latlon:
        ic, it = orot.latlon_to_xyz(cp[0], cp[1], radius=float(fitted.geo_scale)), orot.latlon_to_xyz(tp[0], tp[1], radius=float(fitted.geo_scale))
    else:
        ang, ani = [float(a) for a in fitted.angles], [float(a) for a in fitted.anis]
        ic, it = orot.isometrize(dim, ang, ani, cp), orot.isometrize(dim, ang, ani, tp)
    z = cv - (0.3 if c["variant"] == "Simple" else 0.0)
    sill = float(fitted.var + fitted.nugget)
    est, var, rawvar, cond = okrige.krige(fitted.covariance, ic, z, it, sill, float(fitted.var), unbiased=c["variant"] == "Ordinary",
                                          cond_err=float(fitted.nugget), exact=False, pseudo=True)
    ctx.event("systems_solved")
    if cond > 1e9:
        ctx.discard("ill-conditioned kriging system")
        return
    want_f = est + (0.3 if c["variant"] == "Simple" else 0.0)
    ctx.event("oracle_comparisons", 2)
    zs = max(1.0, common.maxabs(z))
    if not common.maxabs(np.asarray(f) - want_f) <= _tol(cond, zs) * 100:
        ctx.fail(dict(mech, what="fitted-model:estimate!=kriging-system-solution"),
                 f"{c['variant']} {geo} dim {dim}: estimate differs from the solution for the object's fitted model by {common.maxabs(np.asarray(f) - want_f):.3e} "
                 f"(fitted len_scale {fitted.len_scale:.4g}, anis {list(fitted.anis)}, cond {cond:.1e})")
        return
    if not common.maxabs(np.asarray(v) - var) <= _tol(cond, max(sill, 1.0)) * 100:
        ctx.fail(dict(mech, what="fitted-model:variance!=kriging-system-solution"), f"variance differs by {common.maxabs(np.asarray(v) - var):.3e}")
        return
    # (b) the fit itself: the documented two-step recipe on the same data gives the same model
    field = z.copy()
    with warnings.catch_warnings():
        warnings.simplefilter("ignore")
        if geo == "aniso":
            axes = orot.rot(dim, [float(a) for a in twin.angles]).T
            emp = gs.vario_estimate(cp, field, direction=axes)
        else:
            emp = gs.vario_estimate(cp if (latlon or dim > 1) else cp[0], field, latlon=latlon, geo_scale=float(twin.geo_scale) if latlon else 1.0)
        try:
            twin.fit_variogram(*emp, sill=float(np.var(field)))
        except (RuntimeError, ValueError):
            ctx.discard("two-step fit failed")
            return
    ctx.event("fit_twins_compared")
    for attr in ("var", "len_scale", "nugget"):
        a, b_ = float(getattr(fitted, attr)), float(getattr(twin, attr))
        if not abs(a - b_) <= 1e-6 * max(abs(b_), 1e-3 * sill):
            ctx.fail(dict(mech, what="fit_variogram=True!=estimate-then-fit", attr=attr),
                     f"{geo} geo_scale {c['geo_scale'] if latlon else 1}: {attr} {a!r} vs two-step recipe {b_!r}")
            return
    if not latlon and dim > 1 and not np.allclose(np.asarray(fitted.anis), np.asarray(twin.anis), rtol=1e-6, atol=1e-9):
        ctx.fail(dict(mech, what="fit_variogram=True!=estimate-then-fit", attr="anis"), f"anis {list(fitted.anis)} vs {list(twin.anis)}")


_SLACK = [0.0]  # evaluation accuracy of the covariance of the case at hand (exponential-integral models next to integer orders)


def _tol(cond, scale):
    return (200 * EPS + 10 * _SLACK[0]) * max(cond, 1.0) * max(scale, 1e-300) + 1e-13 * scale


def _call(b, **kw):
    with warnings.catch_warnings():
        warnings.simplefilter("ignore")
        with np.errstate(all="ignore"):
            return b.krige(b.pos_arg, mesh_type=b.mesh_type, **b.call_kw, **kw)


def _build(ctx, c, **kw):
    try:
        return kc.build(c, **kw)
    except np.linalg.LinAlgError:
        ctx.discard("singular kriging system (plain inverse requested)")
        return None


def check_oracle(ctx, c):
    from gsverif.oracles import cov as ocov

    # 1-ulp differences between the isometrized lags of code and oracle are amplified by the conditioning of the model function
    _SLACK[0] = ocov.evaluation_slack(c["model"])
    b = _build(ctx, c, structured=c.get("structured", False))
    if b is None:
        return
    if b.ok and b.krige.cond_no <= b.krige.drift_no + int(b.unbiased):
        # as many unbiasedness constraints as data: the weights are fixed by the constraints alone and the system matrix is singular
        ctx.discard("not more conditions than unbiasedness constraints (singular system)")
        return
    if b.ok and c["cseed"] % 4 == 0:
        # history: in-place model change followed by the documented refresh `set_condition()`
        try:
            c = kc.refresh_with_changed_model(c, b, b.rng)
        except np.linalg.LinAlgError:
            ctx.discard("singular kriging system (plain inverse requested)")
            return
        ctx.event("refreshed_after_model_change")
    if not b.ok:
        ctx.discard("conditioning values not representable")
        return
    est, var, post, cond, _ = kc.oracle(c, b)
    ctx.event("systems_solved")
    if cond > 1e9 or not np.all(np.isfinite(post)):
        ctx.discard("ill-conditioned kriging system or non-representable result")
        return
    amp_e, amp_v = kc.amplification(c, b)
    ctx.cell(f"{c['variant']}/{c['geo']}/{c['model']['name']}")
    ctx.cell(f"opts/exact={c['exact']}/err={c['cond_err']}/pinv={c['pseudo_inv']}:{c['pinv']}/norm={c['norm']}/mean={c['mean']}/trend={c['trend']}")
    sill = c["model"]["var"] + c["model"]["nugget"]
    f, v = _call(b)
    fraw, _ = _call(b, post_process=False, store=False)
    ctx.event("oracle_comparisons", 3)
    zscale = max(1.0, common.maxabs(b.z))
    e_raw = common.maxabs(np.asarray(fraw).ravel() - est)
    e_var = common.maxabs(np.asarray(v).ravel() - var)
    ctx.resolve("field_err_over_cond_eps", e_raw / (EPS * cond * zscale))
    mech = {"variant": c["variant"], "geo": c["geo"], "exact": c["exact"], "cond_err": c["cond_err"], "drift": c.get("drift", "none"),
            "norm": c["norm"] != "Normalizer", "mean": c["mean"], "trend": c["trend"] != "none", "aniso": "anis" in c["model"]}
    if np.shape(f) != b.shape:
        ctx.fail(dict(mech, what="field-shape"), f"shape {np.shape(f)} expected {b.shape}")
        return
    if not e_raw <= _tol(cond, max(zscale, amp_e)):
        ctx.fail(dict(mech, what="estimate!=kriging-system-solution"), f"raw estimate differs by {e_raw:.3e} (cond {cond:.2e}, tol {_tol(cond, zscale):.1e}); case {c}")
        return
    if not e_var <= _tol(cond, max(sill, amp_v)):
        ctx.fail(dict(mech, what="variance!=kriging-system-solution"), f"variance differs by {e_var:.3e} (cond {cond:.2e}); case {c}")
        return
    # post-processing: trend + denormalize(mean + raw)
    slope = 1.0
    e_post = common.maxabs(np.asarray(f).ravel() - post)
    if not e_post <= _tol(cond, max(1.0, common.maxabs(post))) * 50:
        ctx.fail(dict(mech, what="post-processed-estimate"), f"field differs from trend + denormalize(mean + estimate) by {e_post:.3e}; case {c}")
        return
    # estimated mean
    from gsverif.oracles import krige as okrige
    from gsverif.oracles import norm as onorm

    k = b.krige
    gm = k.get_mean(post_process=False)
    has_const = k.drift_no == 0 and not callable(k.mean)
    if k.drift_no > 0:
        if gm is not None:
            ctx.fail(dict(mech, what="get_mean-with-drift"), f"get_mean returned {gm} although drift terms are present")
    else:
        if b.unbiased:
            want = okrige.estimated_mean(b.model.covariance, kc.iso(c, b.cond_pos), b.z, sill, c["model"]["var"], cond_err=b.cond_err)
        else:
            want = 0.0
        ctx.event("oracle_comparisons")
        if gm is None or abs(gm - want) > _tol(cond, max(zscale, abs(want), amp_e)) * 10:
            ctx.fail(dict(mech, what="get_mean!=system-solution"), f"get_mean(post_process=False) = {gm}, oracle {want}")
            return
        if has_const:
            gmp = k.get_mean()
            m0 = float(b.fmean(*b.cond_pos[:, :1])[0]) if c["mean"] in ("const",) else 0.0
            with np.errstate(all="ignore"):
                wantp = float(onorm.inverse(c["norm"], c["norm_p"], np.array([want + m0]))[0])
            if np.isfinite(wantp) and (gmp is None or abs(float(gmp) - wantp) > _tol(cond, max(1.0, abs(wantp))) * 50):
                ctx.fail(dict(mech, what="get_mean(post)"), f"get_mean() = {gmp}, oracle {wantp}")
                return
    # only_mean field: the kriged mean (drift part) everywhere
    if c["variant"] in ("Ordinary", "Universal", "ExtDrift", "Generic") and b.unbiased:
        est_m, _, post_m, _, _ = kc.oracle(c, b, only_mean=True)
        fm = _call(b, only_mean=True, post_process=False, store=False)
        ctx.event("oracle_comparisons")
        if not common.maxabs(np.asarray(fm).ravel() - est_m) <= _tol(cond, max(zscale, common.maxabs(est_m), amp_e)) * 10:
            ctx.fail(dict(mech, what="only_mean-field"), f"mean field differs by {common.maxabs(np.asarray(fm).ravel() - est_m):.3e}")
            return


def check_relation(ctx, c):
    rel = c["rel"]
    structured = rel == "mesh_type"
    if rel in ("linearity", "reproduce"):
        # statements about the (detrended, normalised) data: drive them without the normalizer round trip, whose conditioning
        # (exp/log of large values plus a trend) would dominate the tolerance
        c = dict(c, norm="Normalizer", norm_p={})
    b = _build(ctx, c, structured=structured, n_targets=13)
    if b is None:
        return
    if not b.ok:
        ctx.discard("conditioning values not representable")
        return
    est, var, post, cond, _ = kc.oracle(c, b)
    ctx.event("systems_solved")
    if cond > 1e9 or not np.all(np.isfinite(post)):
        ctx.discard("ill-conditioned kriging system or non-representable result")
        return
    ctx.cell(f"relation/{rel}/{c['variant']}")
    ctx.event("metamorphic_relations")
    amp_e, amp_v = kc.amplification(c, b)
    mech = {"variant": c["variant"], "geo": c["geo"], "relation": rel}
    sill = c["model"]["var"] + c["model"]["nugget"]
    zscale = max(1.0, common.maxabs(b.z))
    k = b.krige
    f0, v0 = _call(b, post_process=False, store=False)
    f0, v0 = np.array(f0, copy=True), np.array(v0, copy=True)
    m = b.targets.shape[1]
    if rel == "chunk":
        for cs in (1, 3, m, m + 5):
            f1, v1 = _call(b, post_process=False, store=False, chunk_size=cs)
            if not (np.array_equal(f1, f0) and np.array_equal(v1, v0)):
                ctx.fail(dict(mech, what="depends-on-chunk-size"), f"chunk_size={cs}: max diff {common.maxabs(f1-f0):.3e} / {common.maxabs(v1-v0):.3e}")
                return
        fn = _call(b, post_process=False, store=False, return_var=False, chunk_size=4)
        if not np.array_equal(np.asarray(fn), f0):
            ctx.fail(dict(mech, what="return_var=False-differs"), f"field without variance differs by {common.maxabs(np.asarray(fn)-f0):.3e}")
    elif rel == "mesh_type":
        tp = b.targets
        kw = {}
        with warnings.catch_warnings():
            warnings.simplefilter("ignore")
            f1, v1 = k(tp if k.dim > 1 else tp[0], mesh_type="unstructured", post_process=False, store=False, **b.call_kw)
        if common.maxabs(np.asarray(f1) - f0.ravel()) > 1e-12 * zscale * max(cond, 1) or common.maxabs(np.asarray(v1) - v0.ravel()) > 1e-12 * sill * max(cond, 1):
            ctx.fail(dict(mech, what="structured!=flattened-grid"), f"{common.maxabs(np.asarray(f1) - f0.ravel()):.3e}")
    elif rel == "target_order":
        perm = b.rng.permutation(m)
        tp = b.targets[:, perm]
        kw = {"ext_drift": b.ext_tgt[:, perm]} if b.ext_tgt is not None else {}
        with warnings.catch_warnings():
            warnings.simplefilter("ignore")
            f1, v1 = k(tp if k.dim > 1 else tp[0], post_process=False, store=False, **kw)
        if common.maxabs(np.asarray(f1) - f0[perm]) > 1e-12 * zscale * max(cond, 1) or common.maxabs(np.asarray(v1) - v0[perm]) > 1e-12 * sill * max(cond, 1):
            ctx.fail(dict(mech, what="depends-on-target-order"), f"{common.maxabs(np.asarray(f1) - f0[perm]):.3e}")
        # other targets present do not matter
        with warnings.catch_warnings():
            warnings.simplefilter("ignore")
            sub = b.targets[:, :4]
            kw = {"ext_drift": b.ext_tgt[:, :4]} if b.ext_tgt is not None else {}
            f2, v2 = k(sub if k.dim > 1 else sub[0], post_process=False, store=False, **kw)
        if common.maxabs(np.asarray(f2) - f0[:4]) > 1e-12 * zscale * max(cond, 1):
            ctx.fail(dict(mech, what="depends-on-other-targets"), f"{common.maxabs(np.asarray(f2) - f0[:4]):.3e}")
    elif rel == "cond_order":
        n = b.cond_pos.shape[1]
        perm = b.rng.permutation(n)
        cerr = b.cond_err[perm] if isinstance(b.cond_err, np.ndarray) else None
        with warnings.catch_warnings():
            warnings.simplefilter("ignore")
            kw = {}
            if b.ext_cond is not None:
                kw["ext_drift"] = b.ext_cond[:, perm]
            if cerr is not None:
                kw["cond_err"] = cerr
            k.set_condition(b.cond_pos[:, perm], b.cond_val[perm], **kw)
            f1, v1 = _call(b, post_process=False, store=False)
        if common.maxabs(np.asarray(f1) - f0) > _tol(cond, max(zscale, amp_e)) * 5 or common.maxabs(np.asarray(v1) - v0) > _tol(cond, max(sill, amp_v)) * 5:
            ctx.fail(dict(mech, what="depends-on-condition-order"), f"{common.maxabs(np.asarray(f1) - f0):.3e} (cond {cond:.1e})")
    elif rel == "linearity":
        from gsverif.oracles import norm as onorm

        n = b.cond_pos.shape[1]
        z2 = b.rng.normal(0, 0.5, size=n)
        a = float(b.rng.uniform(-2, 2))

        def field_for(z):
            with np.errstate(all="ignore"):
                cv = np.asarray(b.ftrend(*b.cond_pos), dtype=float) + onorm.inverse(c["norm"], c["norm_p"], np.asarray(b.fmean(*b.cond_pos), dtype=float) + z)
            if not np.all(np.isfinite(cv)):
                return None
            with warnings.catch_warnings():
                warnings.simplefilter("ignore")
                k.set_condition(b.cond_pos, cv, ext_drift=b.ext_cond)
                return np.array(_call(b, post_process=False, store=False)[0], copy=True)

        f2, f12 = field_for(z2), field_for(b.z + a * z2)
        if f2 is None or f12 is None:
            ctx.discard("conditioning values not representable")
            return
        # normalisation/denormalisation of the data adds its own rounding (conditioning of the normalizer)
        fac = 50.0 if c["norm"] != "Normalizer" else 5.0
        err = common.maxabs(f12 - (f0 + a * f2))
        if err > _tol(cond, max(zscale, amp_e) * (1 + abs(a))) * fac + (1e-9 if c["norm"] != "Normalizer" else 0.0):
            ctx.fail(dict(mech, what="estimate-not-linear-in-data"), f"{err:.3e} (cond {cond:.1e})")
    elif rel == "reproduce":
        from gsverif.oracles import norm as onorm

        if not b.unbiased:
            ctx.trivial()
            return
        # data that lies exactly in the span of the constant + drift terms is reproduced at every target
        coef0 = float(b.rng.uniform(-1, 1))
        zc = coef0 * np.ones(b.cond_pos.shape[1])
        zt = coef0 * np.ones(m)
        for f in b.drift_fs:
            a = float(b.rng.uniform(-1, 1))
            zc = zc + a * np.asarray(f(*b.cond_pos), dtype=float)
            zt = zt + a * np.asarray(f(*b.targets), dtype=float)
        if b.ext_cond is not None:
            for row_c, row_t in zip(b.ext_cond, b.ext_tgt):
                a = float(b.rng.uniform(-1, 1))
                zc, zt = zc + a * row_c, zt + a * row_t
        with np.errstate(all="ignore"):
            cv = np.asarray(b.ftrend(*b.cond_pos), dtype=float) + onorm.inverse(c["norm"], c["norm_p"], np.asarray(b.fmean(*b.cond_pos), dtype=float) + zc)
        if not np.all(np.isfinite(cv)):
            ctx.discard("conditioning values not representable")
            return
        with warnings.catch_warnings():
            warnings.simplefilter("ignore")
            k.set_condition(b.cond_pos, cv, ext_drift=b.ext_cond)
            f1 = np.asarray(_call(b, post_process=False, store=False)[0])
        err = common.maxabs(f1.ravel() - zt)
        sc = max(1.0, common.maxabs(zt))
        if err > _tol(cond, max(sc, amp_e)) * 50 + (1e-9 if c["norm"] != "Normalizer" else 0.0):
            ctx.fail(dict(mech, what="unbiased-variant-does-not-reproduce-its-drift", drift=c.get("drift", "none")),
                     f"max deviation {err:.3e} (cond {cond:.1e}); case {c}")
    else:  # only_mean_flags: return_var / store combinations give the same numbers
        with warnings.catch_warnings():
            warnings.simplefilter("ignore")
            f1 = _call(b, post_process=False, return_var=False, store="only_field")
            f2, v2 = _call(b, post_process=False, store=["a", "b"])
        if not (np.array_equal(np.asarray(f1), f0) and np.array_equal(np.asarray(f2), f0) and np.array_equal(np.asarray(v2), v0)):
            ctx.fail(dict(mech, what="depends-on-store/return_var"), "results differ between store / return_var settings")
        if not (np.array_equal(k["a"], f0) and np.array_equal(k["b"], v0) and np.array_equal(k["only_field"], f0)):
            ctx.fail(dict(mech, what="stored!=returned"), "stored kriging fields differ from the returned ones")


CHECKS = {
    "fitted": check_fitted,"oracle": check_oracle, "relation": check_relation}
