"""C10 – variogram fitting recovers generating parameters and honours constraints."""

import copy
import math
import warnings

import numpy as np

from gsverif import common
from gsverif.common import gs

SHARDS = {"quick": 16, "thorough": 16}
TIMEOUT = {"quick": 1500, "thorough": 6000}
REQUIRED_EVENTS = ["fits_run", "constraints_checked"]
MAX_DISCARD_FRAC = 0.3
RULE = (
    "17 classes x dim 1-3 (+ lat-lon, + directional data with anis fitted / fixed / deselected) x bin layouts x selections "
    "(fitted / False / fixed value per parameter) x sill given / False / None x weights (None, 'inv', array, callable) x init_guess "
    "modes x trf/dogbox x losses x custom bounds; start within +-10% of the truth; parameter recovery is only demanded where the "
    "Jacobian at the truth has condition <= 1e6 (computed by the harness); failed optimisations (RuntimeError) are discarded"
    " Data layouts (C, Fortran, transposed table, strided, lists); sill-constrained fits with the variance as the only free parameter."
)
ASSUMPTIONS = [
    "noise-free data are generated with the model's own variogram functions (tied to closed forms by C03)",
    "identifiability is judged by the condition number of the log-parameter Jacobian at the truth",
]
LEVEL_TEXT = (
    "Runtime monitoring of fit executions: r2, recovered parameters (where identified), untouched deselected/fixed parameters, "
    "bounds, the prescribed sill and the equality of the returned dictionary with the model state are asserted after each fit "
    "on seeded noise-free data."
)
TECHNIQUE = "runtime assertion monitor on seeded fit executions (noise-free data, identifiability-gated recovery)"


def generate(tier, seed):
    rng = np.random.default_rng([seed, 10])
    n = {"quick": 12, "thorough": 800}[tier]
    cases = []
    for rep in range(n):
        for name in common.MODELS:
            for dim in common.valid_dims(name):
                if rng.random() < 0.7:
                    cases.append(("fit", {"name": name, "dim": dim, "cseed": int(rng.integers(1 << 30)),
                                          "mode": str(rng.choice(["iso", "iso", "directional", "latlon"])) if dim > 1 else "iso"}))
    return cases


def _truth(rng, name, dim, mode):
    d = common.draw_model(rng, name, dim if mode != "latlon" else 3, "interior", aniso=(mode == "directional"), nugget=False)
    d["nugget"] = round(float(rng.uniform(0.05, 0.5)), 3)
    d.pop("angles", None)
    if mode == "directional":
        d["angles"] = [round(float(v), 3) for v in rng.uniform(-2, 2, size=dim * (dim - 1) // 2)]
    if name == "JBessel" and "opt" in d:
        d["opt"]["nu"] = round(max(d["opt"]["nu"], d["dim"] / 2 - 1 + 0.5), 3)
    if mode != "latlon" and rng.random() < 0.3:
        # a user-defined rescale factor (documented as a plain factor on the length scale), incl. values far from 1;
        # the length scale is chosen so that the correlation length in lag units stays ordinary
        resc = float(rng.choice([0.1, 0.3, 3.0, 100.0]))  # (0.01 makes len_scale ~ 5e-3: the optimiser's default step scaling then fails now and then)
        d["rescale"] = resc
        d["len_scale"] = round(float(d["len_scale"]) * resc / float(common.build_model({k: v for k, v in d.items() if k not in ("rescale",)}).rescale), 6)
    return d


def _curve(model, x, directional):
    if directional:
        return np.array([model.vario_axis(x, axis=i) for i in range(model.dim)])
    if model.latlon:
        return model.vario_yadrenko(x)
    return model.variogram(x)


def check_fit(ctx, c):
    rng = np.random.default_rng(c["cseed"])
    name, dim, mode = c["name"], c["dim"], c["mode"]
    if mode == "latlon" and common.max_valid_dim(name) < 3:
        mode = "iso"
    d = _truth(rng, name, dim, mode)
    kw = {}
    if mode == "latlon":
        R = float(rng.choice([1.0, 6371.0]))
        kw = dict(latlon=True, geo_scale=R)
        d["len_scale"] = round(float(rng.uniform(0.3, 0.9)) * R, 4)
        d.pop("anis", None)
    truth = common.build_model({k: v for k, v in d.items() if not (mode == "latlon" and k == "dim")}, **kw)
    directional = mode == "directional"
    nb = int(rng.integers(10, 40))
    if mode == "latlon":
        x = np.linspace(0.03, 2.5, nb) * kw["geo_scale"]
    else:
        unit = d["len_scale"] / truth.rescale
        x = np.sort(rng.uniform(0.05, 4.0, size=nb)) * unit if rng.random() < 0.5 else np.linspace(0.1, 4.0, nb) * unit
    y = _curve(truth, x, directional)
    if not np.all(np.isfinite(y)) or float(np.std(y)) < 1e-2 * float(np.mean(np.abs(y))):
        ctx.discard("variogram data not finite or constant (all lags beyond the range)")
        return
    # ---- selection of fitted / fixed / deselected parameters ------------------------------------------
    paras = ["var", "len_scale", "nugget"] + list(truth.opt_arg)
    sel = {}
    state = {}
    for p in paras:
        r = rng.random()
        tv = float(getattr(truth, p))
        if p in truth.opt_arg and r < 0.5:
            state[p] = "fixed" if rng.random() < 0.5 else "deselected"
        elif r < 0.15:
            state[p] = "fixed"
        elif r < 0.3:
            state[p] = "deselected"
        else:
            state[p] = "fit"
    if name in common.TPL:
        state["len_low"] = str(rng.choice(["fixed", "deselected"]))  # len_low and len_scale trade off
    if all(v != "fit" for v in state.values()):
        state["len_scale"] = "fit"
    if state["nugget"] != "fit" and rng.random() < 0.5:
        # a nugget-free truth only where the nugget is not estimated (a true value on the bound converges slowly)
        with warnings.catch_warnings():
            warnings.simplefilter("ignore")
            truth.nugget = 0.0
        y = _curve(truth, x, directional)
    sill_mode = str(rng.choice(["none", "none", "given", "false"]))
    if sill_mode != "none":
        state["len_scale"] = "fit"  # with a fixed sill var/nugget may both drop out of the estimation: keep something to fit
    if sill_mode == "given" and name not in common.TPL and rng.random() < 0.3:
        # the smallest constrained problem: only the partition of the sill into variance and nugget is estimated
        for p in paras:
            state[p] = "fixed"
        state["var"], state["nugget"] = "fit", "fit"
    anis_mode = str(rng.choice(["fit", "fixed", "false"])) if directional else "na"
    # ---- the model to be fitted: start within +-10 % -------------------------------------------------
    start = copy.deepcopy(truth)
    guess = {}
    with warnings.catch_warnings():
        warnings.simplefilter("ignore")
        for p in paras:
            tv = float(getattr(truth, p))
            if state[p] == "fit":
                width = 0.02 if name == "JBessel" else 0.08  # hole-effect curves have close local minima
                pert = tv * float(rng.uniform(1 - width, 1 + width)) if tv != 0 else float(rng.uniform(0.0, 0.03))
                bnd = truth.arg_bounds[p]
                lo, hi = float(bnd[0]), float(bnd[1])
                pert = min(max(pert, lo + 1e-3 * max(1.0, abs(lo))), hi - 1e-3 * max(1.0, abs(hi)) if math.isfinite(hi) else pert)
                guess[p] = pert
            elif state[p] == "fixed":
                sel[p] = tv
            else:
                sel[p] = False
        init_mode = str(rng.choice(["dict", "dict+current", "current"]))
        try:
            for p in ["len_scale", "nugget"] + list(truth.opt_arg) + ["var"]:
                if state[p] == "fit":
                    setattr(start, p, guess[p])
                elif state[p] == "fixed":
                    # a fixed value is applied by the fit itself: start from something else (inside the bounds)
                    tv = float(getattr(truth, p))
                    # TPL models: the variance follows the intensity, so a deselected variance (or the "current sill") would
                    # move with the fixed values applied by the fit; only perturb where the final state is determined
                    perturb = not (name in common.TPL and (state["var"] == "deselected" or sill_mode == "false"))
                    alt = (tv * float(rng.choice([0.8, 1.25])) if tv != 0 else 0.07) if perturb else tv
                    bnd = truth.arg_bounds[p]
                    if not (float(bnd[0]) < alt < float(bnd[1])):
                        alt = tv
                    setattr(start, p, alt)
                else:
                    setattr(start, p, float(getattr(truth, p)))
            if state["var"] == "fit":
                start.var = guess["var"]
            elif state["var"] == "fixed" and sill_mode != "false":
                start.var = float(truth.var) * 1.3
            else:
                start.var = float(truth.var)
        except ValueError:
            ctx.discard("perturbed start outside bounds")
            return
    if directional:
        if anis_mode == "fit":
            start.anis = [float(a) * float(rng.uniform(0.93, 1.07)) for a in truth.anis]
        elif anis_mode == "fixed":
            start.anis = [1.0] * (dim - 1)
        else:
            start.anis = list(truth.anis)
    if init_mode == "dict":
        init_guess = dict(guess, default="default")
        if directional and anis_mode == "fit":
            init_guess["anis"] = [float(a) for a in start.anis]
    elif init_mode == "dict+current":
        init_guess = {"default": "current"}
    else:
        init_guess = "current"
    fkw = dict(sel)
    sill_v = float(truth.var + truth.nugget)
    if sill_mode == "given":
        fkw["sill"] = sill_v
    elif sill_mode == "false":
        fkw["sill"] = False
        # the current sill of the start model is kept: make it the true one
        with warnings.catch_warnings():
            warnings.simplefilter("ignore")
            try:
                start.nugget = float(truth.nugget)
                start.var = float(truth.var)
            except ValueError:
                ctx.discard("start outside bounds")
                return
    if directional:
        fkw["anis"] = True if anis_mode == "fit" else ([float(a) for a in truth.anis] if anis_mode == "fixed" else False)
    wmode = str(rng.choice(["none", "inv", "array", "callable"]))
    if wmode == "inv":
        fkw["weights"] = "inv"
    elif wmode == "array":
        fkw["weights"] = rng.uniform(0.5, 2.0, size=x.size)
    elif wmode == "callable":
        fkw["weights"] = lambda v: 1.0 / (1.0 + v / np.max(v))
    fkw["method"] = str(rng.choice(["trf", "trf", "dogbox"]))
    fkw["loss"] = str(rng.choice(["soft_l1", "linear", "huber", "cauchy"]))
    if rng.random() < 0.2 and state["len_scale"] == "fit":
        start.set_arg_bounds(len_scale=[0.5 * d["len_scale"], 2.0 * d["len_scale"], "cc"])
    before = {p: float(getattr(start, p)) for p in paras}
    before_anis = [float(a) for a in start.anis]
    ctx.cell(f"fit/{name}/{mode}/sill={sill_mode}")
    ctx.cell(f"opts/{fkw['method']}/{fkw['loss']}/weights={wmode}/init={init_mode}/anis={anis_mode}")
    mech = {"model": name, "mode": mode, "sill": sill_mode, "anis": anis_mode, "tpl": name in common.TPL}
    # memory layout of the data the caller hands over: the values (x_i, y_ij) are what counts, not how they are stored
    layout = str(rng.choice(["c", "c", "fortran", "transposed-table", "strided", "list"]))
    x_arg, y_arg = x, y
    if layout == "fortran":
        y_arg = np.asfortranarray(y)
    elif layout == "transposed-table" and np.ndim(y) == 2:
        y_arg = np.ascontiguousarray(np.asarray(y).T).T  # rows of a (bins, directions) table, viewed as (directions, bins)
    elif layout == "strided":
        bx = np.zeros(2 * x.size)
        bx[::2] = x
        x_arg = bx[::2]
        by = np.zeros(np.shape(y)[:-1] + (2 * np.shape(y)[-1],))
        by[..., ::2] = y
        y_arg = by[..., ::2]
    elif layout == "list":
        x_arg, y_arg = [float(v) for v in x], np.asarray(y).tolist()
    ctx.cell(f"layout/{layout}")
    try:
        with warnings.catch_warnings():
            warnings.simplefilter("ignore")
            with np.errstate(all="ignore"):
                res, pcov, r2 = start.fit_variogram(x_arg, y_arg, init_guess=init_guess, return_r2=True, max_eval=6000,
                                                    curve_fit_kwargs={"ftol": 1e-15, "xtol": 1e-15, "gtol": None}, **fkw)
    except RuntimeError:
        ctx.discard("optimiser did not converge (RuntimeError)")
        return
    except ValueError as exc:
        msg = str(exc)
        if "nan" in msg.lower():
            # scipy's trust-region step became NaN (degenerate Jacobian of a non-smooth curve); the model's setter refuses it
            ctx.discard("optimiser proposed NaN parameters (ValueError from the model's setter)")
            return
        if fkw["method"] == "dogbox" and "needs to be" in msg:
            ctx.discard("dogbox stepped onto a bound where the coupled TPL variance underflows")
            return
        if "sill" in msg or "Residuals are not finite" in msg or "x0" in msg or "infeasible" in msg:
            ctx.discard("fit refused the setting: " + msg[:60])
            return
        raise
    ctx.event("fits_run")
    model = start
    # ---- constraints ----------------------------------------------------------------------------------
    ctx.event("constraints_checked")
    # (1) returned dict == model state
    for p in paras:
        if p not in res or float(res[p]) != float(getattr(model, p)):
            ctx.fail(dict(mech, what="returned-dict!=model-state", par=p if p in ("var", "len_scale", "nugget") else "opt"),
                     f"{p}: dict {res.get(p)!r} vs model {getattr(model, p)!r}")
            return
    if directional and ("anis" not in res or not np.array_equal(np.asarray(res["anis"]), np.asarray(model.anis))):
        ctx.fail(dict(mech, what="returned-dict!=model-state", par="anis"), f"{res.get('anis')} vs {model.anis}")
        return
    # (2) deselected and fixed parameters untouched
    sill_constrained = sill_mode != "none"
    for p in paras:
        want = None
        if state[p] == "deselected":
            want = before[p]
        elif state[p] == "fixed":
            want = float(sel[p])
        if want is None:
            continue
        if sill_constrained and p in ("var", "nugget"):
            continue  # documented: with a fixed sill var/nugget are recomputed from each other
        got = float(getattr(model, p))
        tol = 1e-13 * max(1.0, abs(want)) if (name in common.TPL and p == "var") else 0.0
        if not abs(got - want) <= tol:
            ctx.fail(dict(mech, what=f"{state[p]}-parameter-altered", par=p if p in ("var", "len_scale", "nugget") else "opt"),
                     f"{p}: {got!r} after the fit, {state[p]} value {want!r} (fit kwargs {sorted(fkw)})")
            return
    if directional and anis_mode in ("fixed", "false"):
        want = [float(a) for a in truth.anis] if anis_mode == "fixed" else before_anis
        if not np.array_equal(np.asarray(model.anis), np.asarray(want)):
            ctx.fail(dict(mech, what="anis-altered"), f"anis {list(model.anis)} expected {want} ({anis_mode})")
            return
    if not directional and not np.array_equal(np.asarray(model.anis), np.asarray(before_anis)):
        ctx.fail(dict(mech, what="anis-altered"), f"isotropic data changed anis: {list(model.anis)} vs {before_anis}")
        return
    # (3) inside the bounds, model state valid
    from gstools.covmodel.tools import check_arg_in_bounds

    for a in model.arg_bounds:
        if check_arg_in_bounds(model, a) != 0:
            ctx.fail(dict(mech, what="fitted-value-outside-bounds", par=a if a in ("var", "len_scale", "nugget", "anis") else "opt"),
                     f"{a} = {getattr(model, a)} bounds {model.arg_bounds[a]}")
            return
    # (4) prescribed sill
    if sill_constrained:
        s = float(model.var + model.nugget)
        if not abs(s - sill_v) <= 1e-12 * sill_v:
            ctx.fail(dict(mech, what="sill-not-met"), f"var + nugget - sill = {s - sill_v:.3e} (sill {sill_v}, mode {sill_mode}, states {state})")
            return
    # (5) recovers the generating curve
    ctx.resolve("one_minus_r2", max(0.0, 1.0 - float(r2)))
    fitted_any = any(v == "fit" for v in state.values())
    # with a mis-specified fixed combination the curve cannot be reached: everything fixed is at the truth here
    if name == "Matern" and float(model.nu) > 20.0 and float(truth.nu) <= 20.0:
        # documented switch to the Gaussian limit for nu > 20: the curve is flat in nu there, a local optimiser that steps across
        # the switch cannot return
        ctx.discard("optimiser entered the nu > 20 Gaussian-limit branch of Matern")
        return
    if not r2 >= 1 - 1e-6:  # local optimiser: termination precision, not exactness
        yfit = _curve(model, x, directional)
        if r2 >= 0.995 or fkw.get("loss") == "cauchy":
            # (the Cauchy loss is not convex in the residuals: runs with it may end anywhere on its plateaus)
            # near miss: did the local optimiser stop at a neighbouring minimum of the (for compact models non-smooth) objective?
            # a second fit started at the generating parameters decides: if that one reproduces the curve, the fitting machinery
            # is sound and the first run is an optimiser artefact (counted); if not, it is not
            try:
                again = copy.deepcopy(truth)
                with warnings.catch_warnings():
                    warnings.simplefilter("ignore")
                    with np.errstate(all="ignore"):
                        _, _, r2b = again.fit_variogram(x_arg, y_arg, init_guess="current", return_r2=True, max_eval=6000,
                                                        curve_fit_kwargs={"ftol": 1e-15, "xtol": 1e-15, "gtol": None}, **fkw)
            except (RuntimeError, ValueError):
                r2b = -1.0
            if r2b >= 1 - 1e-6:
                ctx.discard("optimiser stopped at a neighbouring local minimum (refit from the truth reproduces the curve)")
                return
        ctx.fail(dict(mech, what="r2-below-1"), f"r2 = {r2!r}; max curve error {common.maxabs(yfit - y):.3e}; states {state}; kwargs {sorted(fkw)}")
        return
    # (6) parameter recovery where identified
    fit_pars = [p for p in paras if state[p] == "fit" and not (sill_constrained and p == "nugget")]
    if sill_constrained and "var" in fit_pars and state["nugget"] != "fit":
        pass

    def curve_for(vals):
        m = copy.deepcopy(truth)
        with warnings.catch_warnings():
            warnings.simplefilter("ignore")
            for p, v in vals.items():
                if p != "var":
                    setattr(m, p, v)
            if "var" in vals:
                m.var = vals["var"]
            elif name in common.TPL:
                m.var = float(truth.var)
            if sill_constrained and "var" in vals:
                m.nugget = sill_v - vals["var"]
        return _curve(m, x, directional).ravel()

    base = {p: float(getattr(truth, p)) for p in fit_pars}
    if not fit_pars:
        return
    cols = []
    try:
        for p in fit_pars:
            h = 1e-6 * max(abs(base[p]), 1e-3)
            up, dn = dict(base), dict(base)
            up[p] += h
            dn[p] -= h
            if dn[p] <= truth.arg_bounds[p][0]:
                dn[p] = base[p]
                cols.append((curve_for(up) - curve_for(dn)) / h * max(abs(base[p]), 1e-3))
            else:
                cols.append((curve_for(up) - curve_for(dn)) / (2 * h) * max(abs(base[p]), 1e-3))
    except ValueError:
        return
    try:
        J = np.array(cols, dtype=float).T
    except (ValueError, TypeError):
        return
    if not np.all(np.isfinite(J)):
        return
    condJ = np.linalg.cond(J)
    ctx.event("jacobians_evaluated")
    if condJ > 1e3 or (directional and anis_mode == "fit") or (1.0 - float(r2)) > 1e-12:
        # trade-offs between parameters (ill-conditioned Jacobian) or a run that stopped at the optimiser's termination
        # precision: the curve is recovered (asserted above), individual parameters are not demanded
        ctx.event("recovery_not_demanded(ill-identified)")
        return
    for p in fit_pars:
        got, want = float(getattr(model, p)), base[p]
        if not abs(got - want) <= 2e-3 * max(abs(want), 1e-2) * max(1.0, condJ / 1e3):
            # a different parameter set that reproduces the data to rounding is an equally valid least-squares solution: the lags at
            # hand do not identify the parameter (the linearisation at the truth cannot see a second, distant solution)
            yfit = _curve(model, x, directional)
            if common.maxabs(yfit - y) <= 1e-6 * max(float(np.max(np.abs(y))), 1e-300):
                ctx.discard("another parameter set reproduces the data (not identifiable from these lags)")
                return
            ctx.fail(dict(mech, what="parameter-not-recovered", par=p if p in ("var", "len_scale", "nugget") else "opt"),
                     f"{p}: fitted {got!r}, true {want!r} (r2 {r2!r}, cond(J) {condJ:.2e}); states {state}")
            return


CHECKS = {"fit": check_fit}
