"""C19 – field transformations produce their documented target distributions."""

import math
import warnings

import numpy as np
from scipy.special import ndtr, ndtri

from gsverif import common
from gsverif.common import gs
from gsverif.oracles import norm as onorm

SHARDS = {"quick": 8, "thorough": 16}
TIMEOUT = {"quick": 900, "thorough": 3600}
REQUIRED_EVENTS = ["pushforward_identities", "discrete_cases", "wrapper_compared"]
RULE = (
    "array transformations on the quantile grid x = mu + sigma*Phi^-1((i-1/2)/n) for seeded (mu, sigma^2, bounds, values, "
    "thresholds); Field.transform wrappers for every method x process x keep_mean x store; all cases non-trivial"
    " A second transform chained on a named stored field; force_moments on data with mean/std up to 3e7."
)
ASSUMPTIONS = [
    "scipy.special.ndtr/ndtri (normal cdf / quantile) are correct",
    "target cdfs transcribed from the documentation: log-normal, uniform, arcsine, U-quadratic",
]
LEVEL_TEXT = (
    "Runtime oracle monitoring: each transformation is pushed through the documented target cdf on a quantile grid "
    "(deterministic identity F_target(T(x)) = Phi(z)), discrete partitions are compared with an independent classification, "
    "and every Field.transform wrapper result is recomputed from the stored field by the oracle."
)
TECHNIQUE = "runtime oracle monitor (push-forward identities on quantile grids) + wrapper re-computation"

N = 2001


def generate(tier, seed):
    rng = np.random.default_rng([seed, 19])
    n = {"quick": 30, "thorough": 3000}[tier]
    cases = []
    mus = [0.0, 1.5, -3.0]
    vars_ = [0.1, 1.0, 2.3]
    for rep in range(n):
        mu = float(rng.choice(mus)) if rep < 3 else round(float(rng.uniform(-4, 4)), 3)
        var = float(rng.choice(vars_)) if rep < 3 else round(float(np.exp(rng.uniform(-2.5, 1.5))), 4)
        for kind in ["lognormal", "uniform", "arcsin", "uquad", "zinnharvey", "force_moments", "boxcox"]:
            c = {"kind": kind, "mu": mu, "var": var, "pseed": int(rng.integers(1 << 30))}
            if kind == "uniform":
                lo = round(float(rng.uniform(-5, 5)), 3)
                c.update(low=lo, high=lo + round(float(rng.uniform(0.1, 7)), 3), default=bool(rng.random() < 0.3))
            if kind in ("arcsin", "uquad"):
                a = round(float(rng.uniform(-5, 5)), 3)
                c.update(a=a, b=a + round(float(rng.uniform(0.1, 7)), 3), default=bool(rng.random() < 0.5),
                         implicit_moments=bool(rng.random() < 0.3))
            if kind == "zinnharvey":
                c.update(conn=str(rng.choice(["high", "low"])))
            if kind == "force_moments":
                c.update(tmean=round(float(rng.uniform(-3, 3)), 3), tvar=round(float(np.exp(rng.uniform(-2, 2))), 4))
            if kind == "boxcox":
                c.update(lmbda=float(rng.choice([-1.0, -0.3, 0.0, 0.5, 1.0, 2.0])), shift=float(rng.choice([0.0, 0.7, -0.4])))
            cases.append(("pushforward", c))
        for mode in ["arithmetic", "equal", "explicit", "on_threshold"]:
            k = int(rng.integers(2, 7))
            cases.append(("discrete", {"mode": mode, "k": k, "mu": mu, "var": var, "pseed": int(rng.integers(1 << 30))}))
    methods = ["binary", "discrete", "boxcox", "zinnharvey", "normal_force_moments", "normal_to_lognormal",
               "normal_to_uniform", "normal_to_arcsin", "normal_to_uquad", "function"]
    for rep in range(max(1, n // 3)):
        for m in methods:
            for process in (False, True):
                for keep_mean in (True, False):
                    cases.append(("wrapper", {"method": m, "process": process, "keep_mean": keep_mean,
                                              "store": [True, False, "new_name"][int(rng.integers(3))],
                                              "dim": int(rng.choice([1, 2])), "seed": int(rng.integers(1, 1 << 20)),
                                              "pseed": int(rng.integers(1 << 30)), "structured": bool(rng.random() < 0.4)}))
    return cases


def _grid(mu, var, n=N):
    z = ndtri((np.arange(1, n + 1) - 0.5) / n)
    return z, mu + math.sqrt(var) * z


def check_pushforward(ctx, c):
    from gstools import transform as tf

    mu, var, kind = c["mu"], c["var"], c["kind"]
    sig = math.sqrt(var)
    z, x = _grid(mu, var)
    phi = ndtr(z)
    ctx.cell(f"push/{kind}")
    ctx.event("pushforward_identities")

    def bad(what, err, tol):
        ctx.resolve(f"{kind}_residual", err)
        if not err <= tol:
            ctx.fail({"what": what, "kind": kind}, f"{kind} {c}: residual {err:.3e} > {tol:.1e}")

    if kind == "lognormal":
        t = tf.array_to_lognormal(x)
        bad("lognormal-cdf", common.maxabs(ndtr((np.log(t) - mu) / sig) - phi), 1e-12)
    elif kind == "uniform":
        if c["default"]:
            t = tf.array_to_uniform(x, mean=mu, var=var)
            lo, hi = 0.0, 1.0
        else:
            lo, hi = c["low"], c["high"]
            t = tf.array_to_uniform(x, mean=mu, var=var, low=lo, high=hi)
        bad("uniform-cdf", common.maxabs((t - lo) / (hi - lo) - phi), 1e-12)
        if np.min(t) < lo or np.max(t) > hi:
            ctx.fail({"what": "uniform-support", "kind": kind}, f"values outside [{lo},{hi}]")
    elif kind in ("arcsin", "uquad"):
        fn = tf.array_to_arcsin if kind == "arcsin" else tf.array_to_uquad
        fac = math.sqrt(2.0) if kind == "arcsin" else math.sqrt(5.0 / 3.0)
        if c["default"]:
            a, b = mu - fac * sig, mu + fac * sig
            if c["implicit_moments"]:
                # mean/var taken from the data: use a symmetric grid whose sample moments are known exactly
                t = fn(x)
                m_s, v_s = float(np.mean(x)), float(np.var(x))
                a, b = m_s - fac * math.sqrt(v_s), m_s + fac * math.sqrt(v_s)
                phi_used = ndtr((x - m_s) / math.sqrt(v_s))
            else:
                t = fn(x, mean=mu, var=var)
                phi_used = phi
        else:
            a, b = c["a"], c["b"]
            # bounds are independent keywords: both, or only one of them (the other keeps its moment-preserving default)
            which = ["both", "a", "b"][c["pseed"] % 3] if "pseed" in c else "both"
            if which == "a":
                b = mu + fac * sig
                if not a < b:
                    a = b - 1.0
                t = fn(x, mean=mu, var=var, a=a)
            elif which == "b":
                a = mu - fac * sig
                if not a < b:
                    b = a + 1.0
                t = fn(x, mean=mu, var=var, b=b)
            else:
                t = fn(x, mean=mu, var=var, a=a, b=b)
            phi_used = phi
        if kind == "arcsin":
            u = np.clip((t - a) / (b - a), 0.0, 1.0)
            cdf = 2.0 / math.pi * np.arcsin(np.sqrt(u))
            # derivative of the arcsine cdf is unbounded at the ends: compare in the well-conditioned variable sin^2
            res = common.maxabs(u - np.sin(math.pi / 2 * phi_used) ** 2)
            bad("arcsine-cdf", res, 1e-12)
            res2 = common.maxabs(cdf[5:-5] - phi_used[5:-5])
            bad("arcsine-cdf(inner)", res2, 1e-9)
            if c["default"] and not c["implicit_moments"]:
                # default bounds preserve mean and variance of the arcsine law: mean (a+b)/2, var (b-a)^2/8
                if abs((a + b) / 2 - mu) > 1e-12 * max(1, abs(mu)) or abs((b - a) ** 2 / 8 - var) > 1e-12 * var:
                    ctx.fail({"what": "arcsine-default-bounds", "kind": kind}, "oracle bounds inconsistent")
                from scipy.integrate import quad

                pdf = lambda s: 1.0 / (math.pi * math.sqrt((s - a) * (b - s)))
                lo_, hi_ = float(np.min(t)), float(np.max(t))
                if lo_ < a - 1e-12 * (b - a) or hi_ > b + 1e-12 * (b - a):
                    ctx.fail({"what": "arcsine-support", "kind": kind}, f"values outside [{a},{b}]")
        else:
            al = 12.0 / (b - a) ** 3
            be = (a + b) / 2.0
            cdf = al / 3.0 * ((t - be) ** 3 + (be - a) ** 3)
            bad("uquadratic-cdf", common.maxabs(cdf - phi_used), 1e-11)
            if c["default"] and not c["implicit_moments"]:
                # U-quadratic: mean (a+b)/2, variance 3 (b-a)^2 / 20
                if abs(be - mu) > 1e-12 * max(1, abs(mu)) or abs(3 * (b - a) ** 2 / 20 - var) > 1e-12 * var:
                    ctx.fail({"what": "uquad-default-bounds", "kind": kind}, "oracle bounds inconsistent")
        # empirical moments of the transformed quantile grid (midpoint rule, error O(1/n)): mean and variance preserved
        if c["default"] and not c["implicit_moments"]:
            em, ev = float(np.mean(t)), float(np.var(t))
            if abs(em - mu) > 2e-3 * sig or abs(ev - var) > 2e-2 * var:
                ctx.fail({"what": "default-bounds-do-not-preserve-moments", "kind": kind}, f"mean {em} vs {mu}, var {ev} vs {var}")
    elif kind == "zinnharvey":
        t = tf.array_zinnharvey(x, conn=c["conn"], mean=mu, var=var)
        # exclude the centre points where 2Phi(|z|)-1 -> 0 (quantile -> -inf) from the absolute comparison
        q = ndtri(np.clip(2.0 * ndtr(np.abs(z)) - 1.0, 0.0, 1.0))
        sign = -1.0 if c["conn"] == "high" else 1.0
        want = mu + sign * sig * q
        fin = np.isfinite(want) & (np.abs(z) > 1e-3)
        bad("zinnharvey-identity", common.maxabs((t[fin] - want[fin]) / sig) / max(1.0, common.maxabs(q[fin])), 1e-9)
        # marginal stays normal: normal score of T is Phi(+-q) = p or 1-p with p = 2Phi(|z|)-1
        p = 2.0 * ndtr(np.abs(z)) - 1.0
        score = ndtr((t - mu) / sig)
        wantp = 1.0 - p if c["conn"] == "high" else p
        bad("zinnharvey-marginal", common.maxabs(score[fin] - wantp[fin]), 1e-9)
        # connectivity reversal: monotone in |z| (decreasing for "high", increasing for "low")
        order = np.argsort(np.abs(z), kind="stable")
        d = np.diff(t[order])
        if (c["conn"] == "high" and not np.all(d <= 1e-12)) or (c["conn"] == "low" and not np.all(d >= -1e-12)):
            ctx.fail({"what": "zinnharvey-connectivity", "kind": kind}, f"not monotone in |z| for conn={c['conn']}")
    elif kind == "force_moments":
        rng = np.random.default_rng(c["pseed"])
        # data far from the origin compared with their spread (heads in m a.s.l., temperatures in K): mean/std up to 3e7
        ratio = float(rng.choice([0.0, 0.0, 1e3, 1e6, 3e7]))
        data = rng.normal(mu, sig, size=777) + ratio * sig
        t = tf.array_force_moments(data, mean=c["tmean"], var=c["tvar"])
        e1 = abs(float(np.mean(t)) - c["tmean"]) / max(1.0, abs(c["tmean"]), math.sqrt(c["tvar"]))
        e2 = abs(float(np.var(t)) - c["tvar"]) / c["tvar"]
        # the input mean is known to eps*|mean|: the output mean moves by that times the scale factor; the variance does not
        bad("force_moments(mean)", e1, 1e-12 + 8 * 2.3e-16 * ratio)
        bad("force_moments(var)", e2, 1e-11)
        # order and shape preserved (affine, increasing)
        if not np.array_equal(np.argsort(t, kind="stable"), np.argsort(data, kind="stable")):
            ctx.fail({"what": "force_moments-order", "kind": kind}, "ranks changed")
    elif kind == "boxcox":
        lam, shift = c["lmbda"], c["shift"]
        sel = x
        if lam != 0:
            sel = x[(lam * (x + shift) + 1) > 1e-6]
        if sel.size < 5:
            ctx.discard("boxcox: grid outside the domain")
            return
        with warnings.catch_warnings():
            warnings.simplefilter("ignore")
            t = tf.array_boxcox(sel, lmbda=lam, shift=shift)
        with np.errstate(all="ignore"):
            back = onorm.forward("BoxCox", {"lmbda": lam}, t)
        amp = 1.0 / np.maximum(onorm.derivative("BoxCox", {"lmbda": lam}, t) * np.maximum(t, 1e-300), 1e-300)
        err = np.abs(back - (sel + shift)) / (1.0 + np.abs(sel + shift))
        ok = np.isfinite(back)
        bad("boxcox-inverts-normalizer", float(np.max(err[ok])) if np.any(ok) else math.inf, 1e-9)


def _classify(x, thresholds):
    return np.searchsorted(np.asarray(thresholds, dtype=float), x, side="left")


def check_discrete(ctx, c):
    from gstools import transform as tf

    rng = np.random.default_rng(c["pseed"])
    mu, var, k, mode = c["mu"], c["var"], c["k"], c["mode"]
    z, x = _grid(mu, var)
    vals = np.round(rng.permutation(np.unique(np.round(rng.uniform(-5, 5, size=3 * k), 2))[:k]), 2)
    if len(vals) < 2:
        ctx.discard("too few distinct values")
        return
    k = len(vals)
    ctx.event("discrete_cases")
    ctx.cell(f"discrete/{mode}")
    if mode == "arithmetic":
        out = tf.array_discrete(x, vals, thresholds="arithmetic")
        sv = np.sort(vals)
        thr = (sv[1:] + sv[:-1]) / 2.0
        want = sv[_classify(x, thr)]
    elif mode == "equal":
        out = tf.array_discrete(x, vals, thresholds="equal", mean=mu, var=var)
        thr = mu + math.sqrt(var) * ndtri(np.arange(1, k) / k)
        cls = _classify(x, thr)
        want = np.asarray(vals)[cls]
        counts = np.array([np.sum(out == v) for v in vals])
        if np.max(np.abs(counts - N / k)) > 1.0 + 1e-9:
            ctx.fail({"what": "equal-classes-not-equiprobable", "mode": mode}, f"class counts {counts} for n={N}, k={k}")
    else:
        thr = np.sort(np.round(rng.uniform(mu - 2 * math.sqrt(var), mu + 2 * math.sqrt(var), size=k - 1), 3))
        if np.any(np.diff(thr) <= 0):
            ctx.discard("duplicate thresholds")
            return
        data = x
        if mode == "on_threshold":
            # values exactly on a threshold belong to the lower class
            data = np.concatenate([thr, np.nextafter(thr, np.inf), np.nextafter(thr, -np.inf), x[::50]])
        out = tf.array_discrete(data, vals, thresholds=thr)
        want = np.asarray(vals)[_classify(data, thr)]
        x = data
    if not set(np.unique(out)).issubset(set(np.asarray(vals, dtype=float))):
        ctx.fail({"what": "discrete-output-not-subset-of-values", "mode": mode}, f"{np.unique(out)} vs {vals}")
    mism = np.flatnonzero(out != want)
    # 'equal' thresholds come from erfinv: a grid point within 1e-12 of a threshold may legitimately fall either side
    if mode == "equal" and mism.size:
        near = np.min(np.abs(x[mism, None] - thr[None, :]), axis=1) < 1e-10 * max(1.0, abs(mu))
        mism = mism[~near]
    if mism.size:
        i = int(mism[0])
        ctx.fail({"what": "discrete-partition", "mode": mode}, f"x={x[i]!r} -> {out[i]} expected {want[i]} (thresholds {thr})")


def _oracle_pre(fld, data, keep_mean, grid, info):
    name, p, fmean, ftrend = info
    d = np.asarray(data, dtype=float) - ftrend(*grid).reshape(np.shape(data))
    d = onorm.forward(name, p, d.ravel()).reshape(d.shape)
    if not keep_mean:
        d = d - fmean(*grid).reshape(d.shape)
    return d


def _oracle_post(fld, data, keep_mean, grid, info):
    name, p, fmean, ftrend = info
    d = np.asarray(data, dtype=float)
    if not keep_mean:
        d = d + fmean(*grid).reshape(d.shape)
    d = onorm.inverse(name, p, d.ravel()).reshape(d.shape)
    return d + ftrend(*grid).reshape(d.shape)


def check_wrapper(ctx, c):
    from gstools import transform as tf

    rng = np.random.default_rng(c["pseed"])
    dim, method, process, keep_mean = c["dim"], c["method"], c["process"], c["keep_mean"]
    mean_v = round(float(rng.uniform(0.3, 1.2)), 3)
    model = gs.Gaussian(dim=dim, var=round(float(rng.uniform(0.05, 0.2)), 3), len_scale=2.0, nugget=float(rng.choice([0.0, 0.02])))
    if process:
        name, p = "LogNormal", {}
        tr = round(float(rng.uniform(0.1, 0.5)), 3)
        srf = gs.SRF(model, mean=mean_v, normalizer=gs.normalizer.LogNormal(), trend=tr, seed=c["seed"], mode_no=32)
        ftrend = lambda *x: tr + 0.0 * np.asarray(x[0])
    else:
        name, p = "Normalizer", {}
        srf = gs.SRF(model, mean=mean_v, seed=c["seed"], mode_no=32)
        ftrend = lambda *x: 0.0 * np.asarray(x[0])
    fmean = lambda *x: mean_v + 0.0 * np.asarray(x[0])
    if c["structured"]:
        axes = [np.linspace(0, 6, int(rng.integers(3, 7))) for _ in range(dim)]
        srf.structured(axes if dim > 1 else axes[0])
        grid = np.array(np.meshgrid(*axes, indexing="ij"))
    else:
        pts = rng.uniform(0, 6, size=(dim, 37))
        srf(pts)
        grid = pts
    base = np.array(srf.field, copy=True)
    sill = float(model.var + model.nugget)
    kw = {}
    m_used = 0.0 if (process and not keep_mean) else mean_v
    if method == "binary":
        if rng.random() < 0.5:
            kw = dict(divide=round(float(rng.uniform(0.4, 1.0)), 3), upper=2.0, lower=-1.0)
        div = kw.get("divide", m_used)
        up = kw.get("upper", m_used + math.sqrt(sill))
        lo = kw.get("lower", m_used - math.sqrt(sill))
        func = lambda d: np.where(d <= div, lo, up)
    elif method == "discrete":
        vals = [-1.0, 0.5, 2.0]
        thr_mode = str(rng.choice(["arithmetic", "equal"]))
        kw = dict(values=vals, thresholds=thr_mode)
        if thr_mode == "arithmetic":
            thr = [(-1.0 + 0.5) / 2, (0.5 + 2.0) / 2]
        else:
            thr = list(m_used + math.sqrt(sill) * ndtri(np.array([1, 2]) / 3.0))
        func = lambda d: np.asarray(vals)[_classify(d, thr)]
    elif method == "boxcox":
        kw = dict(lmbda=0.5, shift=0.2)
        func = lambda d: np.maximum(0.5 * (d + 0.2) + 1, 0) ** 2.0
    elif method == "zinnharvey":
        kw = dict(conn=str(rng.choice(["high", "low"])))
        sg = -1.0 if kw["conn"] == "high" else 1.0
        func = lambda d: m_used + sg * math.sqrt(sill) * ndtri(np.clip(2 * ndtr(np.abs(d - m_used) / math.sqrt(sill)) - 1, 0, 1))
    elif method == "normal_force_moments":
        func = lambda d: (d - np.mean(d)) * math.sqrt(sill / np.var(d)) + m_used
    elif method == "normal_to_lognormal":
        func = np.exp
    elif method == "normal_to_uniform":
        kw = dict(low=-2.0, high=3.0)
        func = lambda d: ndtr((d - m_used) / math.sqrt(sill)) * 5.0 - 2.0
    elif method == "normal_to_arcsin":
        a, b = m_used - math.sqrt(2 * sill), m_used + math.sqrt(2 * sill)
        func = lambda d: (b - a) * np.sin(math.pi / 2 * ndtr((d - m_used) / math.sqrt(sill))) ** 2 + a
    elif method == "normal_to_uquad":
        a, b = m_used - math.sqrt(5 / 3 * sill), m_used + math.sqrt(5 / 3 * sill)

        def func(d):
            u = ndtr((d - m_used) / math.sqrt(sill))
            al, be, ga = 12 / (b - a) ** 3, (a + b) / 2, (a - b) ** 3 / 8
            return np.cbrt(3 * u / al + ga) + be
    else:
        kw = dict(function=lambda d, fac: fac * d**2, fac=1.5)
        func = lambda d: 1.5 * d**2
    info = (name, p, fmean, ftrend)
    data = base
    with np.errstate(all="ignore"):
        if process:
            data = _oracle_pre(srf, data, keep_mean, grid, info)
        want = func(np.asarray(data, dtype=float))
        if process:
            want = _oracle_post(srf, want, keep_mean, grid, info)
    with warnings.catch_warnings():
        warnings.simplefilter("ignore")
        got = srf.transform(method, store=c["store"], process=process, keep_mean=keep_mean, **kw)
    ctx.event("wrapper_compared")
    ctx.cell(f"wrap/{method}/process={process}/keep_mean={keep_mean}")
    if not np.all(np.isfinite(want)):
        ctx.discard("oracle result not finite")
        return
    scale = max(1.0, common.maxabs(want))
    if method in ("discrete", "binary"):
        mism = np.asarray(got) != want
        # thresholds computed twice (erfinv vs ndtri): ignore points within 1e-12 of a threshold
        frac = float(np.mean(mism))
        if frac > 0 and method == "discrete" and kw.get("thresholds") == "equal":
            d = np.min(np.abs(np.asarray(data).ravel()[:, None] - np.asarray(thr)[None, :]), axis=1).reshape(np.shape(data))
            mism = mism & (d > 1e-10)
        if np.any(mism):
            ctx.fail({"what": "transform-wrapper!=array-function", "method": method, "process": process, "keep_mean": keep_mean},
                     f"{int(np.sum(mism))} class mismatches")
    else:
        err = common.maxabs(np.asarray(got) - want) / scale
        ctx.resolve("wrapper_rel", err)
        if np.shape(got) != np.shape(want) or not err <= 1e-9:
            ctx.fail({"what": "transform-wrapper!=array-function", "method": method, "process": process, "keep_mean": keep_mean},
                     f"rel err {err:.3e}")
    # storage semantics
    st = c["store"]
    if st is True:
        if not np.array_equal(srf.field, got):
            ctx.fail({"what": "store=True-not-in-place", "method": method}, "stored field != returned field")
    else:
        if not np.array_equal(srf.field, base):
            ctx.fail({"what": "source-field-changed", "method": method, "store": str(st)}, "transform altered the stored source field")
        if isinstance(st, str) and not np.array_equal(srf[st], got):
            ctx.fail({"what": "store=name-missing", "method": method}, "field not stored under the new name")
        if st is False and len(srf.field_names) != 1:
            ctx.fail({"what": "store=False-stored", "method": method}, f"{srf.field_names}")
    # chained step on a *named* stored field: source and target of the second transform are the names the caller states
    if isinstance(st, str):
        got1 = np.array(got, copy=True)
        second = str(rng.choice(["inplace", "newname", "nostore"]))
        st2 = {"inplace": True, "newname": st + "_2", "nostore": False}[second]
        with warnings.catch_warnings():
            warnings.simplefilter("ignore")
            got2 = srf.transform("function", field=st, store=st2, function=lambda d: 2.0 * d + 1.0)
        ctx.event("chained_named_transforms")
        mech = {"what": "transform(field=name)-storage", "second": second}
        if not np.allclose(got2, 2.0 * got1 + 1.0, rtol=1e-12, atol=0, equal_nan=True):
            ctx.fail(dict(mech, what="transform(field=name)-reads-another-field"), f"second transform of field {st!r} did not start from it")
        elif not np.array_equal(srf.field, base):
            ctx.fail(dict(mech, what="transform(field=name)-alters-the-default-field"), f"after transform(field={st!r}, store={st2!r}) the field 'field' changed")
        elif second == "inplace" and not np.array_equal(srf[st], got2):
            ctx.fail(dict(mech, what="transform(field=name, store=True)-not-stored-under-that-name"), f"srf[{st!r}] is not the transformed field")
        elif second != "inplace" and not np.array_equal(srf[st], got1):
            ctx.fail(dict(mech, what="transform(field=name)-alters-its-source"), f"srf[{st!r}] changed although store={st2!r}")
        elif second == "newname" and not np.array_equal(srf[st2], got2):
            ctx.fail(dict(mech, what="transform(field=name, store=new)-missing"), f"srf[{st2!r}] is not the transformed field")


CHECKS = {"pushforward": check_pushforward, "discrete": check_discrete, "wrapper": check_wrapper}
