"""C07 – conditioned random fields honour the data and never reuse stale kriging results."""

import copy
import warnings

import numpy as np

from gsverif import common, krigecase as kc
from gsverif.common import gs

SHARDS = {"quick": 16, "thorough": 16}
TIMEOUT = {"quick": 1200, "thorough": 5400}
REQUIRED_EVENTS = ["conditioned_fields", "formula_comparisons", "history_steps", "fresh_objects_built"]
MAX_DISCARD_FRAC = 0.35
RULE = (
    "kriging variants usable for conditioning (Simple, Ordinary, Universal, ExtDrift, Detrended) x models x dim 1-3 (+lat-lon/time) x "
    "seeds x structured/unstructured targets; call histories (<= 8 steps) mixing new seeds, same positions, set_pos, positions "
    "mutated in place, nearly equal positions, set_condition with new values / positions / no arguments after in-place model "
    "changes, mean/trend/normalizer re-assignment, external-drift changes, store-name variations"
)
ASSUMPTIONS = [
    "O-KRIGE direct solve for the kriging part; an independent SRF of the same seed supplies the unconditional field",
    "a freshly built Krige + CondSRF with the same configuration and seed is the reference for histories",
]
LEVEL_TEXT = (
    "Runtime monitoring: conditioned fields are compared with kriging estimate + scaled unconditional field recomputed from an "
    "independent SRF and the O-KRIGE oracle, and after every step of seeded call histories with a freshly built object."
)
TECHNIQUE = "runtime oracle monitor (formula re-computation) + history vs fresh-object comparator"
EPS = 2.3e-16
COND_VARIANTS = ["Simple", "Ordinary", "Universal", "ExtDrift", "Detrended"]


def generate(tier, seed):
    rng = np.random.default_rng([seed, 7])
    n = {"quick": 25, "thorough": 900}[tier]
    cases = []
    for rep in range(n):
        for v in COND_VARIANTS:
            c = kc.draw_case(rng, variant=v, zero_error=bool(rng.random() < 0.6))
            c["seed"] = int(rng.integers(1, 1 << 24))
            c["structured"] = bool(rng.random() < 0.3)
            if c["model"]["name"] in ("Linear", "Circular", "Spherical", "Cubic", "HyperSpherical", "SuperSpherical", "TPLSimple", "Stable", "Rational", "TPLStable"):
                c["sampling"] = "mcmc"
            cases.append(("formula", c))
        for v in COND_VARIANTS:
            cases.append(("history", {"variant": v, "dim": int(rng.integers(1, 4)), "hseed": int(rng.integers(1 << 30)),
                                      "nsteps": int(rng.integers(2, 9)), "seed": int(rng.integers(1, 1 << 24)),
                                      "model": str(rng.choice(["Gaussian", "Exponential", "Matern", "Integral", "TPLGaussian", "JBessel"])),
                                      "nugget": float(rng.choice([0.0, 0.0, 0.15]))}))
    return cases


def check_formula(ctx, c):
    try:
        b = kc.build(c, structured=c.get("structured", False), n_targets=9)
    except np.linalg.LinAlgError:
        ctx.discard("singular kriging system (plain inverse requested)")
        return
    if not b.ok:
        ctx.discard("conditioning values not representable")
        return
    md = c["model"]
    k = b.krige
    fdim = b.model.field_dim
    # targets: the prepared ones + the conditioning points + far points
    far = None
    with_data = False
    if not c["geo"].startswith("latlon") and not c.get("structured") and c["variant"] in ("Simple", "Detrended"):
        far = b.cond_pos[:, :1] + 1e4 * md["len_scale"] * np.sign(b.rng.normal(size=(fdim, 4)))
        tp = np.concatenate([b.targets, b.cond_pos, far], axis=1)
        ext_t = None
        if b.ext_cond is not None:
            ext_t = np.concatenate([b.ext_tgt, b.ext_cond, b.rng.normal(size=(b.ext_cond.shape[0], 4))], axis=1)
        pos_arg, mesh_type, shape = (tp if fdim > 1 else tp[0]), "unstructured", (tp.shape[1],)
        with_data = True
    elif not c.get("structured"):
        tp = np.concatenate([b.targets, b.cond_pos], axis=1)
        ext_t = np.concatenate([b.ext_tgt, b.ext_cond], axis=1) if b.ext_cond is not None else None
        pos_arg, mesh_type, shape = (tp if fdim > 1 else tp[0]), "unstructured", (tp.shape[1],)
        with_data = True
    else:
        tp, ext_t, pos_arg, mesh_type, shape = b.targets, b.ext_tgt, b.pos_arg, b.mesh_type, b.shape
    est, var, post, cond, _ = kc.oracle(c, b, targets=tp, ext_tgt=ext_t)
    if cond > 1e8 or not np.all(np.isfinite(post)):
        ctx.discard("ill-conditioned kriging system or non-representable result")
        return
    ctx.cell(f"formula/{c['variant']}/{c['geo']}/{'nugget' if md['nugget'] > 0 else 'no-nugget'}")
    gkw = {"mode_no": 32}
    if not b.model.has_ppf:
        gkw["sampling"] = "mcmc"
    call_kw = {"ext_drift": ext_t} if ext_t is not None else {}
    with warnings.catch_warnings():
        warnings.simplefilter("ignore")
        with np.errstate(all="ignore"):
            cs = gs.CondSRF(k, seed=c["seed"], **gkw)
            field = np.asarray(cs(pos_arg, mesh_type=mesh_type, post_process=False, **call_kw), dtype=float).ravel()
            # independent unconditional fields of the same seed: nugget-free twin gives the correlated part, the model with
            # nugget the sum of correlated part and noise
            twin = copy.deepcopy(b.model)
            twin.nugget = 0.0
            raw = np.asarray(gs.SRF(twin, seed=c["seed"], **gkw)(pos_arg, mesh_type=mesh_type), dtype=float).ravel()
            full = np.asarray(gs.SRF(copy.deepcopy(b.model), seed=c["seed"], **gkw)(pos_arg, mesh_type=mesh_type), dtype=float).ravel()
    noise = full - raw
    ctx.event("conditioned_fields")
    nug, v0 = md["nugget"], md["var"]
    amp_e, amp_v = kc.amplification(c, b)
    amp_scale = max(1.0, common.maxabs(b.z), amp_e)
    if nug > 0:
        vs = np.maximum(var - nug, 0.0)
        want = est + np.sqrt(vs / v0) * raw + np.sqrt((var - vs) / nug) * noise
    else:
        want = est + np.sqrt(var / v0) * raw
    # sqrt of a variance known to eps*cond*sill: d sqrt(v) <= min(sqrt(dv), dv / (2 sqrt(v)))
    dv = 400 * EPS * cond * max(v0 + nug, amp_v)
    # coordinates pass through a (BLAS) rotation: a target "at" a datum may sit a few ulp away; for models that are not smooth
    # at the origin (power-law / linear behaviour) this shows up in the kriging variance as gamma(delta)
    delta = 16 * EPS * max(1.0, common.maxabs(kc.iso(c, tp)))
    with np.errstate(all="ignore"):
        dv += 4.0 * max(0.0, float(b.model.variogram(delta) - nug)) * max(1.0, cond)
    with np.errstate(all="ignore"):
        dsq = np.minimum(np.sqrt(dv), dv / (2 * np.sqrt(np.maximum(var, 1e-300))))
    tol = 400 * EPS * cond * amp_scale + dsq / np.sqrt(v0) * (np.abs(raw) + np.abs(noise)) * 2 + 1e-9 * (1 + np.abs(want))
    mech = {"variant": c["variant"], "geo": c["geo"], "nugget": nug > 0, "exact": c["exact"]}
    ctx.event("formula_comparisons", field.size)
    bad = ~(np.abs(field - want) <= tol)
    if np.any(bad):
        i = int(np.argmax(np.abs(field - want) - tol))
        ctx.fail(dict(mech, what="field!=krige+scaled-unconditional-field"),
                 f"point {i}: conditioned {field[i]!r}, expected {want[i]!r} (krige {est[i]:.6g}, kvar {var[i]:.6g}, raw {raw[i]:.6g}); case {c}")
        return
    # honours the data where the measurement error is zero
    if (nug == 0.0 or c["exact"]) and c["cond_err"] == "nugget" and with_data:
        m = b.targets.shape[1]
        at_data = field[m:m + b.cond_pos.shape[1]]
        tol_d = 400 * EPS * cond * amp_scale + np.sqrt(dv / v0) * np.max(np.abs(raw) + np.abs(noise)) + 1e-10
        if common.maxabs(at_data - b.z) > tol_d:
            ctx.fail(dict(mech, what="conditioned-field!=data-at-conditioning-points"),
                     f"max deviation {common.maxabs(at_data - b.z):.3e} (tol {tol_d:.1e}); case {c}")
            return
    # far from the data under simple kriging: mean + unconditional field of the same seed
    if far is not None and c["variant"] in ("Simple", "Detrended") and md["name"] not in (
            "JBessel", "Rational", "Stable", "TPLStable", "TPLExponential", "TPLGaussian", "Integral"):
        ff = field[-4:]
        if common.maxabs(ff - full[-4:]) > 1e-5 * max(1.0, common.maxabs(full[-4:])):
            ctx.fail(dict(mech, what="far-field!=mean+unconditional-field"),
                     f"far from the data the raw conditioned field {ff} differs from the unconditional field {full[-4:]}")


# ---------------------------------------------------------------------------------------------------------------------
# histories
# ---------------------------------------------------------------------------------------------------------------------


def _mk_fun(kind, coef):
    if kind == "none":
        return None
    if kind == "const":
        return float(coef[0])
    co = [float(v) for v in coef]

    def f(*x):
        return co[0] + sum(ci * np.asarray(xi, dtype=float) for ci, xi in zip(co[1:], x))

    return f


def _build_pair(cfg):
    """Krige + CondSRF from a configuration dict (used for the live object and for every fresh reference)."""
    model = getattr(gs, cfg["model"])(**cfg["model_kw"])
    norm = None if cfg["norm"] is None else getattr(gs.normalizer, cfg["norm"][0])(**cfg["norm"][1])
    mean = _mk_fun(*cfg["mean"])
    trend = _mk_fun(*cfg["trend"])
    cp, cv = np.array(cfg["cond_pos"], dtype=float), np.array(cfg["cond_val"], dtype=float)
    v = cfg["variant"]
    with warnings.catch_warnings():
        warnings.simplefilter("ignore")
        if v == "Simple":
            k = gs.krige.Simple(model, cp, cv, mean=0.0 if mean is None else mean, normalizer=norm, trend=trend)
        elif v == "Ordinary":
            k = gs.krige.Ordinary(model, cp, cv, normalizer=norm, trend=trend)
        elif v == "Universal":
            k = gs.krige.Universal(model, cp, cv, "linear", normalizer=norm, trend=trend)
        elif v == "ExtDrift":
            k = gs.krige.ExtDrift(model, cp, cv, np.array(cfg["ext_cond"]), normalizer=norm, trend=trend)
        else:
            k = gs.krige.Detrended(model, cp, cv, trend if callable(trend) else (lambda *x: 0.2 + 0.0 * np.asarray(x[0])))
        cs = gs.CondSRF(k, seed=cfg["seed"], mode_no=24)
    return k, cs


def check_history(ctx, c):
    rng = np.random.default_rng(c["hseed"])
    dim = c["dim"]
    n = int(rng.integers(4, 9))
    if c["variant"] in ("Simple", "Ordinary", "Detrended") and rng.random() < 0.25:
        n = 1  # a single conditioning point: the kriging matrix holds nothing but the sill
    mkw = dict(dim=dim, var=round(float(rng.uniform(0.5, 2)), 3), len_scale=round(float(rng.uniform(1, 4)), 3), nugget=c["nugget"])
    if dim > 1:
        mkw["anis"] = [round(float(v), 3) for v in np.exp(rng.uniform(-0.7, 0.7, size=dim - 1))]
        mkw["angles"] = [round(float(v), 3) for v in rng.uniform(-2, 2, size=dim * (dim - 1) // 2)]
    offset = float(rng.choice([0.0, 0.0, 4.5e5]))
    cfg = {"variant": c["variant"], "model": c["model"], "model_kw": mkw, "seed": c["seed"],
           "cond_pos": (rng.uniform(0, 10, size=(dim, n)) + offset).tolist(), "cond_val": rng.normal(2.0, 0.5, size=n).tolist(),
           "mean": ("none", [0.0]), "trend": ("none", [0.0]), "norm": None, "ext_cond": rng.normal(size=(1, n)).tolist()}
    if c["variant"] == "Simple":
        cfg["mean"] = ("const", [1.5])
    if c["variant"] == "Detrended":
        cfg["trend"] = ("callable", [0.3] + [0.02] * dim)
    k, cs = _build_pair(cfg)
    npt = 7
    pos = rng.uniform(0, 10, size=(dim, npt)) + offset
    ext_t = rng.normal(size=(1, npt))
    structured = False
    hist = []
    ctx.cell(f"history/{c['variant']}/dim{dim}")

    def call(obj, **kw):
        ckw = {"ext_drift": ext_t} if cfg["variant"] == "ExtDrift" else {}
        ckw.update(kw)
        with warnings.catch_warnings():
            warnings.simplefilter("ignore")
            with np.errstate(all="ignore"):
                return np.array(obj(**ckw), copy=True)

    arg = (lambda p: p) if dim > 1 else (lambda p: p[0])
    live_pos = np.array(pos, copy=True)  # an array the "user" keeps and may mutate in place
    call(cs, pos=arg(live_pos))
    for step in range(c["nsteps"]):
        ops = ["new_seed", "same_pos", "set_pos", "mutate_pos_in_place", "nearly_equal_pos", "cond_values", "cond_positions",
               "model_inplace_refresh", "mean", "trend", "normalizer", "store_names", "krige_store", "krige_called_directly",
               "partial_store_call_after_new_conditions"]
        if cfg["variant"] == "ExtDrift":
            ops += ["ext_drift_targets", "ext_drift_targets"]
        op = str(rng.choice(ops))
        kw = {}
        pos_given = None
        with warnings.catch_warnings():
            warnings.simplefilter("ignore")
            if op == "new_seed":
                cfg["seed"] = int(rng.integers(1, 1 << 24))
                kw["seed"] = cfg["seed"]
            elif op == "same_pos":
                pos_given = arg(np.array(live_pos, copy=True))
            elif op == "set_pos":
                live_pos = rng.uniform(0, 10, size=(dim, npt)) + offset
                ext_t = rng.normal(size=(1, npt))
                cs.set_pos(arg(live_pos))
            elif op == "mutate_pos_in_place":
                live_pos += rng.uniform(0.5, 2.0)
                pos_given = arg(live_pos)
            elif op == "nearly_equal_pos":
                live_pos = live_pos + (1.7 if offset else 3e-9)
                pos_given = arg(live_pos)
            elif op == "cond_values":
                cfg["cond_val"] = (np.array(cfg["cond_val"]) + rng.normal(0, 1.0, size=n)).tolist()
                k.set_condition(np.array(cfg["cond_pos"]), np.array(cfg["cond_val"]),
                                **({"ext_drift": np.array(cfg["ext_cond"])} if cfg["variant"] == "ExtDrift" else {}))
            elif op == "cond_positions":
                cfg["cond_pos"] = (rng.uniform(0, 10, size=(dim, n)) + offset).tolist()
                k.set_condition(np.array(cfg["cond_pos"]), np.array(cfg["cond_val"]),
                                **({"ext_drift": np.array(cfg["ext_cond"])} if cfg["variant"] == "ExtDrift" else {}))
            elif op == "model_inplace_refresh":
                mk = cfg["model_kw"]
                mk["len_scale"] = round(float(rng.uniform(1, 4)), 3)
                cs.model.len_scale = mk["len_scale"]
                if rng.random() < 0.5:  # (sometimes only the geometry changes: the covariances among the conditions may then stay the same)
                    mk["var"] = round(float(rng.uniform(0.5, 2)), 3)
                    cs.model.var = mk["var"]
                mk["var"] = float(cs.model.var)  # (truncated power law models: the variance follows the length scale)
                if dim > 1:
                    mk["anis"] = [round(float(v), 3) for v in np.exp(rng.uniform(-0.7, 0.7, size=dim - 1))]
                    cs.model.anis = mk["anis"]
                k.set_condition()  # the documented refresh
            elif op == "mean" and cfg["variant"] == "Simple":
                cfg["mean"] = ("const", [round(float(rng.uniform(0, 3)), 3)]) if rng.random() < 0.6 else ("callable", [1.0] + [0.05] * dim)
                cs.mean = _mk_fun(*cfg["mean"])
            elif op == "trend" and cfg["variant"] != "Detrended":
                cfg["trend"] = ("const", [round(float(rng.uniform(0, 1)), 3)]) if rng.random() < 0.5 else ("callable", [0.2] + [0.03] * dim)
                cs.trend = _mk_fun(*cfg["trend"])
            elif op == "normalizer" and cfg["variant"] != "Detrended" and offset == 0.0:
                cfg["norm"] = [("YeoJohnson", {"lmbda": 0.8}), ("Modulus", {"lmbda": 1.3}), None][int(rng.integers(0, 3))]
                cs.normalizer = None if cfg["norm"] is None else getattr(gs.normalizer, cfg["norm"][0])(**cfg["norm"][1])
            elif op == "store_names":
                kw["store"] = [["a", "b", "c"], True, ["field", "raw_field", "raw_krige"], "only", False, [True, False, False]][int(rng.integers(0, 6))]
            elif op == "krige_store":
                kw["krige_store"] = [["kf", "kv"], True, False, [False, "kv2"], [True, False], ["kf3", False], [False, False]][int(rng.integers(0, 7))]
            elif op == "partial_store_call_after_new_conditions":
                # an intermediate call that keeps only part of the kriging results, right after the conditions changed
                cfg["cond_pos"] = (rng.uniform(0, 10, size=(dim, n)) + offset).tolist()
                k.set_condition(np.array(cfg["cond_pos"]), np.array(cfg["cond_val"]),
                                **({"ext_drift": np.array(cfg["ext_cond"])} if cfg["variant"] == "ExtDrift" else {}))
                extra = {"ext_drift": ext_t} if cfg["variant"] == "ExtDrift" else {}
                cs(krige_store=[[True, False], [False, True], [False, False], ["kf4", False]][int(rng.integers(0, 4))],
                   store=bool(rng.random() < 0.5), **extra)
            elif op == "ext_drift_targets":
                ext_t = rng.normal(size=(1, npt))
            elif op == "krige_called_directly":
                call(k, pos=arg(np.array(live_pos, copy=True)))
            else:
                op += "(skipped)"
        hist.append(op)
        ctx.event("history_steps")
        if c["nugget"] > 0 and "seed" not in kw:
            # nugget noise continues its random stream between calls; a new seed value restarts it, which makes the live
            # object comparable with a freshly built one
            cfg["seed"] = int(rng.integers(1, 1 << 24))
            kw["seed"] = cfg["seed"]
        if pos_given is not None:
            kw["pos"] = pos_given
        got = call(cs, **kw)
        kf, cf = _build_pair(cfg)
        ctx.event("fresh_objects_built")
        want = call(cf, pos=arg(np.array(live_pos, copy=True)))
        if got.shape != want.shape:
            ctx.fail({"what": "history!=fresh-object", "variant": c["variant"], "op": op.split("(")[0]}, f"shape {got.shape} vs {want.shape} after {hist}")
            return
        if not np.all(np.isfinite(want)):
            ctx.discard("reference not finite")
            return
        diff = common.maxabs(got - want)
        tol = 1e-10 * max(1.0, common.maxabs(want))
        ctx.resolve("history_diff", diff)
        if not diff <= tol:
            ctx.fail({"what": "history!=fresh-object", "variant": c["variant"], "op": op.split("(")[0], "offset": "large" if offset else "zero"},
                     f"after {hist}: conditioned field differs from a freshly built Krige+CondSRF by {diff:.3e}")
            return


CHECKS = {"formula": check_formula, "history": check_history}
