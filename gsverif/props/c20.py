"""C20 – operations never modify caller arrays or previously stored results (M-ARR array guard)."""

import hashlib
import math
import warnings

import numpy as np

from gsverif import common
from gsverif.common import gs

SHARDS = {"quick": 16, "thorough": 16}
TIMEOUT = {"quick": 1200, "thorough": 5400}
REQUIRED_EVENTS = ["arrays_guarded", "guarded_calls", "stored_results_tracked"]
RULE = (
    "public entry points x argument roles x aliasing layouts (float64, C-contiguous, already of the target shape; "
    "also int / list / non-contiguous controls) x option combinations enabling in-place arithmetic; store/transform "
    "sequences tracking every array handed out earlier. Non-trivial = at least one float64 contiguous array was passed"
    " Hostile values (zero / tiny weights, unsorted class values), unrotated anisotropic models, structured CondSRF targets with re-used kriging results."
)
ASSUMPTIONS = ["sha1 over the bytes (and mask bytes) of an array detects any change of its contents"]
LEVEL_TEXT = (
    "Runtime monitoring with an array guard: digests (shape, dtype, strides, sha1 of data and mask) of every caller-held "
    "array and of every previously returned / stored result are taken before and compared after each public call."
)
TECHNIQUE = "runtime array guard (before/after digests of caller arrays and earlier results) over API call sequences"


def _digest(a):
    if isinstance(a, np.ma.MaskedArray):
        m = np.ma.getmaskarray(a)
        return ("ma", a.shape, str(a.dtype), hashlib.sha1(np.ascontiguousarray(a.data).tobytes()).hexdigest(),
                hashlib.sha1(np.ascontiguousarray(m).tobytes()).hexdigest(), a.mask is np.ma.nomask)
    if isinstance(a, np.ndarray):
        return ("nd", a.shape, str(a.dtype), a.strides, hashlib.sha1(np.ascontiguousarray(a).tobytes()).hexdigest())
    if isinstance(a, (list, tuple)):
        return ("seq", type(a).__name__, tuple(_digest(x) for x in a))
    return ("obj", repr(a))


class Watch:
    def __init__(self, ctx):
        self.ctx = ctx
        self.items = []

    def add(self, role, arr):
        self.items.append((role, arr, _digest(arr)))
        self.ctx.event("arrays_guarded")
        return arr

    def verify(self, entry, **mech):
        self.ctx.event("guarded_calls")
        for role, arr, dig in self.items:
            now = _digest(arr)
            if now != dig:
                m = {"what": "caller-array-modified", "entry": entry, "role": role}
                m.update(mech)
                self.ctx.fail(m, f"{entry}: argument '{role}' changed during the call ({dig[:3]} -> {now[:3]})")
                return False
        return True


def _same(a, b):
    return np.array_equal(np.asarray(a), np.asarray(b), equal_nan=True)


def _layout(rng, arr, kind):
    """Return the array in the requested layout: alias (float64 C), int, list, fortran, strided."""
    a = np.asarray(arr)
    if kind == "alias":
        return np.ascontiguousarray(a, dtype=np.double)
    if kind == "list":
        return a.tolist()
    if kind == "fortran":
        return np.asfortranarray(a, dtype=np.double)
    if kind == "strided":
        big = np.zeros(a.shape[:-1] + (a.shape[-1] * 2,), dtype=np.double)
        big[..., ::2] = a
        return big[..., ::2]
    return np.ascontiguousarray(a, dtype=np.double)


ENTRIES = ["vario_estimate", "vario_latlon", "vario_axis", "standard_bins", "krige", "srf", "condsrf", "field_call",
           "mesh", "fit_variogram", "normalizer", "mean_norm_trend", "transform_arrays", "transform_sequence",
           "covmodel_funcs", "geometric", "vtk"]


def generate(tier, seed):
    rng = np.random.default_rng([seed, 20])
    n = {"quick": 25, "thorough": 2000}[tier]
    cases = []
    for rep in range(n):
        for e in ENTRIES:
            reps = 3 if e in ("vario_estimate", "krige", "transform_sequence", "srf") else 1
            for _ in range(reps):
                cases.append((e, {"cseed": int(rng.integers(1 << 30)), "layout": str(rng.choice(["alias", "alias", "alias", "list", "fortran", "strided"]))}))
    return cases


def _trend(dim):
    return lambda *x: 0.3 + 0.1 * np.asarray(x[0])


def check_vario_estimate(ctx, c):
    rng = np.random.default_rng(c["cseed"])
    w = Watch(ctx)
    dim = int(rng.integers(1, 4))
    structured = bool(rng.random() < 0.3)
    nf = int(rng.integers(1, 3))
    if structured:
        axes = [np.sort(rng.uniform(0, 10, size=int(rng.integers(3, 6)))) for _ in range(dim)]
        pos = tuple(w.add(f"pos[{i}]", _layout(rng, a, c["layout"])) for i, a in enumerate(axes))
        if dim == 1:
            pos = pos[0]
        shape = tuple(len(a) for a in axes)
    else:
        npts = int(rng.integers(12, 30))
        pos = w.add("pos", _layout(rng, rng.uniform(0, 10, size=(dim, npts)) if dim > 1 else rng.uniform(0, 10, size=npts), c["layout"]))
        shape = (npts,)
    fshape = shape if nf == 1 else (nf,) + shape
    data = rng.normal(1.5, 0.4, size=fshape)
    kw = {}
    opts = []
    if rng.random() < 0.4:
        data.flat[rng.integers(0, data.size, size=2)] = -999.0
        kw["no_data"] = -999.0
        opts.append("no_data")
    elif rng.random() < 0.3:
        data.flat[rng.integers(0, data.size, size=2)] = np.nan
        opts.append("nan")
    if rng.random() < 0.3:
        m = rng.random(size=fshape) < 0.15
        field = w.add("field(masked)", np.ma.array(np.ascontiguousarray(data), mask=m))
        opts.append("masked-field")
    else:
        field = w.add("field", _layout(rng, data, c["layout"]))
    if rng.random() < 0.3:
        kw["mask"] = w.add("mask", rng.random(size=shape) < 0.15)
        opts.append("mask")
    if rng.random() < 0.7:
        kw["bin_edges"] = w.add("bin_edges", _layout(rng, np.linspace(0, 6, int(rng.integers(4, 9))), c["layout"]))
    if dim > 1 and rng.random() < 0.4:
        kw["direction"] = w.add("direction", _layout(rng, rng.normal(size=(int(rng.integers(1, 3)), dim)), c["layout"]))
        kw["angles_tol"] = 0.6
        if rng.random() < 0.5:
            kw["bandwidth"] = 2.0
        opts.append("direction")
    elif dim > 1 and rng.random() < 0.2:
        kw["angles"] = w.add("angles", np.ascontiguousarray(rng.uniform(0, 3, size=dim - 1)))
        opts.append("angles")
    if rng.random() < 0.5:
        which = str(rng.choice(["mean", "trend", "normalizer", "all", "fit_normalizer"]))
        opts.append(which)
        if which in ("mean", "all"):
            kw["mean"] = 0.7
        if which in ("trend", "all"):
            kw["trend"] = _trend(dim)
        if which in ("normalizer", "all", "fit_normalizer"):
            kw["normalizer"] = gs.normalizer.YeoJohnson(lmbda=0.7)
        if which == "fit_normalizer":
            kw["fit_normalizer"] = True
    if rng.random() < 0.25:
        kw["sampling_size"] = 8
        kw["sampling_seed"] = 3
        opts.append("sampling")
    kw["estimator"] = str(rng.choice(["matheron", "cressie"]))
    kw["return_counts"] = bool(rng.random() < 0.5)
    ctx.cell(f"vario_estimate/{'structured' if structured else 'unstructured'}/{'+'.join(sorted(opts)) or 'plain'}")
    with warnings.catch_warnings():
        warnings.simplefilter("ignore")
        gs.vario_estimate(pos, field, mesh_type="structured" if structured else "unstructured", **kw)
    w.verify("vario_estimate", options="+".join(sorted(opts)))
    if c["layout"] != "alias":
        ctx.trivial()


def check_vario_latlon(ctx, c):
    rng = np.random.default_rng(c["cseed"])
    w = Watch(ctx)
    npts = int(rng.integers(10, 25))
    lat = rng.uniform(-60, 60, size=npts)
    lon = rng.uniform(-170, 170, size=npts)
    pos = w.add("pos", _layout(rng, np.array([lat, lon]), c["layout"]))
    field = w.add("field", _layout(rng, rng.normal(size=npts), c["layout"]))
    gscale = float(rng.choice([1.0, gs.KM_SCALE, gs.DEGREE_SCALE, 123.4]))
    edges = np.linspace(0, 1.0, 6) * gscale
    bins = w.add("bin_edges", _layout(rng, edges, c["layout"]))
    ctx.cell(f"vario_latlon/geo_scale={gscale:g}")
    gs.vario_estimate(pos, field, bins, latlon=True, geo_scale=gscale)
    w.verify("vario_estimate(latlon)", geo_scale=("1" if gscale == 1.0 else "!=1"))
    # the same bins array is reused for a second field: results must be identical to a fresh array
    r1 = gs.vario_estimate(pos, field, bins, latlon=True, geo_scale=gscale, return_counts=True)
    r2 = gs.vario_estimate(pos, field, np.array(edges), latlon=True, geo_scale=gscale, return_counts=True)
    if not all(np.array_equal(a, b) for a, b in zip(r1, r2)):
        ctx.fail({"what": "reused-argument-gives-different-result", "entry": "vario_estimate(latlon)"}, "second call with the same bins array differs")
    w.add("std_pos", pos)
    gs.standard_bins(pos, latlon=True, geo_scale=gscale)
    w.verify("standard_bins(latlon)")
    if c["layout"] != "alias":
        ctx.trivial()


def check_vario_axis(ctx, c):
    rng = np.random.default_rng(c["cseed"])
    w = Watch(ctx)
    shape = tuple(int(v) for v in rng.integers(3, 7, size=int(rng.integers(1, 4))))
    data = rng.normal(size=shape)
    mode = str(rng.choice(["plain", "nan", "no_data", "masked", "masked+no_data", "masked+nan"]))
    kw = {}
    if "nan" in mode:
        data.flat[rng.integers(0, data.size, size=2)] = np.nan
    if "no_data" in mode:
        data.flat[rng.integers(0, data.size, size=2)] = -999.0
        kw["no_data"] = -999.0
    if "masked" in mode:
        field = w.add("field(masked)", np.ma.array(np.ascontiguousarray(data), mask=rng.random(size=shape) < 0.2))
    else:
        field = w.add("field", _layout(rng, data, c["layout"]) if c["layout"] != "list" else np.ascontiguousarray(data))
    ctx.cell(f"vario_axis/{mode}")
    direction = int(rng.integers(0, len(shape)))
    gs.vario_estimate_axis(field, direction=direction if rng.random() < 0.5 else "xyz"[direction], estimator=str(rng.choice(["matheron", "cressie"])), **kw)
    w.verify("vario_estimate_axis", mode=mode)


def check_standard_bins(ctx, c):
    rng = np.random.default_rng(c["cseed"])
    w = Watch(ctx)
    dim = int(rng.integers(1, 4))
    pos = w.add("pos", _layout(rng, rng.uniform(0, 9, size=(dim, 20)), c["layout"]))
    gs.standard_bins(pos, dim=dim)
    axes = tuple(w.add(f"axis{i}", np.sort(rng.uniform(0, 5, size=4))) for i in range(dim))
    gs.standard_bins(axes if dim > 1 else axes[0], dim=dim, mesh_type="structured")
    ctx.cell("standard_bins")
    w.verify("standard_bins")


def check_krige(ctx, c):
    rng = np.random.default_rng(c["cseed"])
    w = Watch(ctx)
    dim = int(rng.integers(1, 4))
    n = int(rng.integers(5, 10))
    model = gs.Exponential(dim=dim, var=1.2, len_scale=2.0, nugget=float(rng.choice([0.0, 0.1])))
    cp = w.add("cond_pos", _layout(rng, rng.uniform(0, 8, size=(dim, n)) if dim > 1 else rng.uniform(0, 8, size=n), c["layout"]))
    vals = rng.normal(3.0, 0.3, size=n)
    variant = str(rng.choice(["Simple", "Ordinary", "Universal", "ExtDrift", "Detrended", "Krige"]))
    nan_val = rng.random() < 0.2 and variant in ("Universal", "Detrended", "Krige")
    if nan_val:
        vals[0] = np.nan
    cv = w.add("cond_val", _layout(rng, vals, c["layout"]))
    kw, call = {}, {}
    opts = [variant]
    npt = int(rng.integers(6, 15))
    if variant == "Universal":
        kw["drift_functions"] = "linear"
    if variant == "ExtDrift":
        kw["ext_drift"] = w.add("ext_drift", _layout(rng, rng.normal(size=n), c["layout"]))
        call["ext_drift"] = w.add("call_ext_drift", _layout(rng, rng.normal(size=npt), c["layout"]))
    if variant == "Detrended":
        kw["trend"] = _trend(dim)
    if variant == "Krige":
        kw.update(mean=1.5, normalizer=gs.normalizer.LogNormal(), trend=_trend(dim), unbiased=False)
        if rng.random() < 0.5:
            kw["fit_normalizer"] = True
            kw["normalizer"] = gs.normalizer.BoxCox(lmbda=0.5)
            opts.append("fit_normalizer")
        if rng.random() < 0.3 and dim < 3:
            kw["fit_variogram"] = True
            opts.append("fit_variogram")
    if variant in ("Simple", "Ordinary") and rng.random() < 0.5:
        kw["cond_err"] = w.add("cond_err", _layout(rng, rng.uniform(0.01, 0.05, size=n), c["layout"]))
        model.nugget = 0.1
        opts.append("cond_err")
    ctx.cell("krige/" + "+".join(opts))
    with warnings.catch_warnings():
        warnings.simplefilter("ignore")
        cls = gs.krige.Krige if variant == "Krige" else getattr(gs.krige, variant)
        try:
            k = cls(model, cp, cv, **kw)
        except (ValueError, RuntimeError):
            if "fit_variogram" in opts:
                ctx.discard("variogram fit on tiny data failed")
                return
            raise
        if not w.verify(f"krige.{variant}.__init__", options="+".join(opts)):
            return
        structured = bool(rng.random() < 0.3) and not call
        if structured:
            axes = [np.sort(rng.uniform(0, 8, size=3)) for _ in range(dim)]
            pos = tuple(w.add(f"pos[{i}]", a) for i, a in enumerate(axes))
            pos = pos if dim > 1 else pos[0]
            r = k.structured(pos, chunk_size=int(rng.choice([2, 100])))
        else:
            pos = w.add("pos", _layout(rng, rng.uniform(0, 8, size=(dim, npt)) if dim > 1 else rng.uniform(0, 8, size=npt), c["layout"]))
            r = k(pos, chunk_size=int(rng.choice([3, 100])), **call)
        if not w.verify(f"krige.{variant}.__call__", options="+".join(opts)):
            return
        # earlier results survive later calls under other names / set_condition
        first = [np.array(a, copy=True) for a in r]
        held = list(r)
        ctx.event("stored_results_tracked", len(held))
        k(store=["f2", "v2"], **call)
        k(only_mean=True, store="m2", **call) if variant != "Detrended" else None
        k(return_var=False, store="f3", post_process=False, **call)
        k.set_condition()
        k.get_mean()
        for a, b in zip(held, first):
            if not np.array_equal(a, b, equal_nan=True):
                ctx.fail({"what": "earlier-result-modified", "entry": f"krige.{variant}"}, "a previously returned kriging field changed")
                return
        w.verify(f"krige.{variant}.later-calls", options="+".join(opts))
    if c["layout"] != "alias":
        ctx.trivial()


def check_srf(ctx, c):
    rng = np.random.default_rng(c["cseed"])
    w = Watch(ctx)
    dim = int(rng.integers(1, 4))
    gen = str(rng.choice(["RandMeth", "Fourier", "VectorField"])) if dim > 1 else str(rng.choice(["RandMeth", "Fourier"]))
    model = gs.Gaussian(dim=dim, var=0.4, len_scale=2.0, nugget=float(rng.choice([0.0, 0.05])))
    gkw = dict(mode_no=16) if gen != "Fourier" else dict(period=9.0, mode_no=8)
    kw = {}
    if gen != "VectorField" and rng.random() < 0.6:
        kw = dict(mean=0.5, trend=_trend(dim), normalizer=gs.normalizer.LogNormal())
    with warnings.catch_warnings():
        warnings.simplefilter("ignore")
        srf = gs.SRF(model, generator=gen, seed=int(rng.integers(1, 999)), **gkw, **kw)
    ctx.cell(f"srf/{gen}/{'post' if kw else 'plain'}")
    held, copies = [], []
    for step in range(int(rng.integers(2, 5))):
        structured = bool(rng.random() < 0.4)
        call = {}
        if structured:
            axes = [np.sort(rng.uniform(0, 8, size=int(rng.integers(2, 5)))) for _ in range(dim)]
            pos = tuple(w.add(f"pos[{i}]@{step}", _layout(rng, a, c["layout"])) for i, a in enumerate(axes))
            pos = pos if dim > 1 else pos[0]
            npt = int(np.prod([len(a) for a in axes]))
        else:
            npt = int(rng.integers(5, 12))
            pos = w.add(f"pos@{step}", _layout(rng, rng.uniform(0, 8, size=(dim, npt)) if dim > 1 else rng.uniform(0, 8, size=npt), c["layout"]))
        if gen == "RandMeth" and rng.random() < 0.3:
            srf.upscaling = "coarse_graining"
            call["point_volumes"] = w.add(f"point_volumes@{step}", np.ascontiguousarray(rng.uniform(0.1, 1, size=npt))) if not structured else 0.5
        store = [True, f"f{step}", False][int(rng.integers(0, 3))]
        r = srf(pos, seed=int(rng.integers(1, 999)), mesh_type="structured" if structured else "unstructured", store=store,
                post_process=bool(rng.random() < 0.8), **call)
        if not w.verify("SRF.__call__", generator=gen):
            return
        # positions change between steps => stored fields are deleted by design; arrays already handed out must stay intact
        for a, b in zip(held, copies):
            if not _same(a, b):
                ctx.fail({"what": "earlier-result-modified", "entry": "SRF.__call__", "generator": gen}, "an earlier returned field changed")
                return
        held.append(r)
        copies.append(np.array(r, copy=True))
        ctx.event("stored_results_tracked")
        # same positions again under another name: the first result must not change
        r2 = srf(seed=int(rng.integers(1, 999)), store="again")
        if not _same(held[-1], copies[-1]):
            ctx.fail({"what": "earlier-result-modified", "entry": "SRF.__call__(same pos, new name)", "generator": gen}, "")
            return
        held.append(r2)
        copies.append(np.array(r2, copy=True))
    if c["layout"] != "alias":
        ctx.trivial()


def check_condsrf(ctx, c):
    rng = np.random.default_rng(c["cseed"])
    w = Watch(ctx)
    dim = int(rng.integers(1, 3))
    n = 5
    model = gs.Gaussian(dim=dim, var=float(rng.choice([0.5, 1.0, 1.3])), len_scale=2.0, nugget=float(rng.choice([0.0, 0.05])))
    cp = w.add("cond_pos", _layout(rng, rng.uniform(0, 8, size=(dim, n)) if dim > 1 else rng.uniform(0, 8, size=n), c["layout"]))
    cv = w.add("cond_val", _layout(rng, rng.normal(3.0, 0.2, size=n), c["layout"]))
    kw = dict(mean=0.8, trend=_trend(dim), normalizer=gs.normalizer.LogNormal()) if rng.random() < 0.5 else {}
    k = gs.krige.Krige(model, cp, cv, unbiased=not kw, **kw)
    cs = gs.CondSRF(k, seed=5, mode_no=16)
    ctx.cell(f"condsrf/{'post' if kw else 'plain'}")
    npt = 9
    if rng.random() < 0.5:
        # structured target grid (stored results are reshaped views there)
        axes = tuple(w.add(f"axis[{i}]", np.sort(rng.uniform(0, 8, size=int(rng.integers(2, 5))))) for i in range(dim))
        r1 = cs(axes if dim > 1 else axes[0], mesh_type="structured")
        ctx.cell("condsrf/structured")
    else:
        pos = w.add("pos", _layout(rng, rng.uniform(0, 8, size=(dim, npt)) if dim > 1 else rng.uniform(0, 8, size=npt), c["layout"]))
        r1 = cs(pos)
    c1 = np.array(r1, copy=True)
    kf = np.array(k.field, copy=True)
    kfo = k.field
    kvo = k["krige_var"]  # the kriging variance the Krige object keeps (handed out to the user by reference)
    kv = np.array(kvo, copy=True)
    ctx.event("stored_results_tracked", 3)
    if not w.verify("CondSRF.__call__"):
        return
    r2 = cs(seed=6, store=["f2", "r2", "k2"])
    r3 = cs(seed=7, store="f3", krige_store=["kk", "vv"])
    cs(seed=8, post_process=False)
    # further realisations on the same positions that re-use the kriging results kept under the default names
    r4 = cs(seed=9, store=["f4", "r4", True])
    r5 = cs(seed=10, store=["f5", "r5", True], krige_store=[False, True])
    if not (_same(r1, c1) and _same(kfo, kf)):
        ctx.fail({"what": "earlier-result-modified", "entry": "CondSRF.__call__"}, "first conditioned / kriging field changed by later calls")
        return
    if not (_same(kvo, kv) and _same(k["krige_var"], kv)):
        ctx.fail({"what": "earlier-result-modified", "entry": "CondSRF.__call__", "result": "krige_var"},
                 f"kriging variance handed out after the first call changed during later realisations on the same positions (ratio {float(np.nanmax(np.asarray(kvo) / np.where(kv == 0, np.nan, kv))):.4f})")
        return
    w.verify("CondSRF.later-calls")
    if c["layout"] != "alias":
        ctx.trivial()


def check_field_call(ctx, c):
    rng = np.random.default_rng(c["cseed"])
    w = Watch(ctx)
    dim = int(rng.integers(1, 4))
    vec = dim > 1 and rng.random() < 0.3
    kw = dict(mean=1.0, trend=_trend(dim), normalizer=gs.normalizer.Modulus(lmbda=0.8)) if not vec else dict(mean=[0.5] * dim, trend=0.2)
    fld = gs.field.Field(dim=dim, value_type="vector" if vec else "scalar", **kw)
    structured = bool(rng.random() < 0.4)
    if structured:
        axes = [np.sort(rng.uniform(0, 8, size=int(rng.integers(2, 5)))) for _ in range(dim)]
        pos = tuple(w.add(f"pos[{i}]", a) for i, a in enumerate(axes))
        pos = pos if dim > 1 else pos[0]
        shape = tuple(len(a) for a in axes)
    else:
        npt = 8
        pos = w.add("pos", np.ascontiguousarray(rng.uniform(0, 8, size=(dim, npt))) if dim > 1 else np.ascontiguousarray(rng.uniform(0, 8, size=npt)))
        shape = (npt,)
    if vec:
        shape = (dim,) + shape
    given = w.add("field", _layout(rng, rng.normal(0.5, 0.1, size=shape), c["layout"]))
    ctx.cell(f"field_call/{'vector' if vec else 'scalar'}/{'structured' if structured else 'unstructured'}")
    fld(pos, field=given, mesh_type="structured" if structured else "unstructured")
    if not w.verify("Field.__call__(field=)"):
        return
    fld(field=given, post_process=False, store="raw")
    w.verify("Field.__call__(field=, post_process=False)")
    if c["layout"] != "alias":
        ctx.trivial()


def check_mesh(ctx, c):
    import meshio

    rng = np.random.default_rng(c["cseed"])
    w = Watch(ctx)
    dim = int(rng.choice([2, 3]))
    npnt = 12
    pts = np.ascontiguousarray(rng.uniform(0, 5, size=(npnt, dim)))
    if dim == 2:
        cells = [("triangle", rng.integers(0, npnt, size=(5, 3))), ("quad", rng.integers(0, npnt, size=(3, 4))), ("triangle", rng.integers(0, npnt, size=(2, 3)))]
    else:
        cells = [("tetra", rng.integers(0, npnt, size=(5, 4))), ("hexahedron", rng.integers(0, npnt, size=(2, 8)))]
    mesh = meshio.Mesh(pts, cells)
    w.add("mesh.points", mesh.points)
    for i, cb in enumerate(mesh.cells):
        w.add(f"mesh.cells[{i}]", cb.data)
    srf = gs.SRF(gs.Gaussian(dim=dim, len_scale=2.0), seed=3, mode_no=16)
    how = str(rng.choice(["centroids", "points"]))
    ctx.cell(f"mesh/{how}/dim{dim}")
    out = srf.mesh(mesh, points=how, name="a")
    first = np.array(out, copy=True)
    srf.mesh(mesh, points=how, name="b", seed=9)
    ctx.event("stored_results_tracked")
    if how == "points":
        if not _same(mesh.point_data["a"], first):
            ctx.fail({"what": "earlier-result-modified", "entry": "Field.mesh(points)"}, "point_data of the first call changed")
    else:
        cat = np.concatenate(mesh.cell_data["a"])
        if not _same(cat, first):
            ctx.fail({"what": "earlier-result-modified", "entry": "Field.mesh(centroids)"}, "cell_data of the first call changed / not the returned values")
    w.verify("Field.mesh")


def check_fit_variogram(ctx, c):
    rng = np.random.default_rng(c["cseed"])
    w = Watch(ctx)
    dim = int(rng.integers(1, 4))
    truth = gs.Stable(dim=dim, var=1.3, len_scale=3.0, nugget=0.2, alpha=1.4)
    x = np.linspace(0.2, 12, 18)
    directional = dim > 1 and rng.random() < 0.4
    y = np.array([truth.vario_axis(x, axis=i) for i in range(dim)]) if directional else truth.variogram(x)
    xs = w.add("x_data", _layout(rng, x, c["layout"]))
    ys = w.add("y_data", _layout(rng, y, c["layout"]) if c["layout"] != "list" else np.ascontiguousarray(y))
    kw = {}
    mode = str(rng.choice(["none", "array", "array", "inv", "callable"]))
    if mode == "array":
        wts = rng.uniform(0.5, 2, size=x.size)
        if rng.random() < 0.85:
            # value classes a "clean-up" step could be tempted to repair in place: zero and tiny weights
            wts[rng.integers(0, x.size, size=2)] = 0.0
            wts[int(rng.integers(0, x.size))] = 1e-300
        kw["weights"] = w.add("weights", np.ascontiguousarray(wts))
    elif mode == "inv":
        kw["weights"] = "inv"
    elif mode == "callable":
        kw["weights"] = lambda v: 1.0 / (1.0 + v)
    if rng.random() < 0.4:
        kw["sill"] = 1.5
    if rng.random() < 0.3:
        kw["nugget"] = False
    m = gs.Stable(dim=dim)
    ctx.cell(f"fit_variogram/{'dir' if directional else 'iso'}/weights={mode}")
    with warnings.catch_warnings():
        warnings.simplefilter("ignore")
        m.fit_variogram(xs, ys, return_r2=True, **kw)
    w.verify("CovModel.fit_variogram", weights=mode)
    if c["layout"] != "alias":
        ctx.trivial()


def check_normalizer(ctx, c):
    rng = np.random.default_rng(c["cseed"])
    w = Watch(ctx)
    name = str(rng.choice(["LogNormal", "BoxCox", "BoxCoxShift", "YeoJohnson", "Modulus", "Manly"]))
    norm = getattr(gs.normalizer, name)()
    shape = (12,) if rng.random() < 0.5 else (3, 5)
    data = rng.uniform(0.2, 4.0, size=shape)
    if rng.random() < 0.3:
        data.flat[0] = np.nan
    x = w.add("data", _layout(rng, data, c["layout"]))
    ctx.cell(f"normalizer/{name}")
    with warnings.catch_warnings():
        warnings.simplefilter("ignore")
        for fn in ("normalize", "denormalize", "derivative", "loglikelihood", "likelihood", "kernel_loglikelihood"):
            getattr(norm, fn)(x)
            if not w.verify(f"{name}.{fn}"):
                return
        if name != "LogNormal":
            norm.fit(x, skip=["shift"] if name == "BoxCoxShift" else None)
            w.verify(f"{name}.fit")
            getattr(gs.normalizer, name)(data=x)
            w.verify(f"{name}(data=)")
    if c["layout"] != "alias":
        ctx.trivial()


def check_mean_norm_trend(ctx, c):
    from gstools.normalizer import apply_mean_norm_trend, remove_trend_norm_mean

    rng = np.random.default_rng(c["cseed"])
    w = Watch(ctx)
    dim = int(rng.integers(1, 4))
    stacked = bool(rng.random() < 0.4)
    structured = bool(rng.random() < 0.4)
    check_shape = bool(rng.random() < 0.7)
    if structured:
        axes = [np.sort(rng.uniform(0, 8, size=int(rng.integers(2, 5)))) for _ in range(dim)]
        pos = tuple(w.add(f"pos[{i}]", a) for i, a in enumerate(axes))
        if dim == 1 and check_shape:
            pos = pos[0]
        shape = tuple(len(a) for a in axes)
    else:
        pos = w.add("pos", np.ascontiguousarray(rng.uniform(0, 8, size=(dim, 7))))
        shape = (7,)
    if stacked:
        shape = (2,) + shape
    f = w.add("field", _layout(rng, rng.uniform(0.5, 1.5, size=shape), c["layout"]) if c["layout"] != "list" else np.ascontiguousarray(rng.uniform(0.5, 1.5, size=shape)))
    kw = dict(mean=0.4, normalizer=gs.normalizer.LogNormal(), trend=_trend(dim), mesh_type="structured" if structured else "unstructured",
              stacked=stacked, check_shape=check_shape)
    ctx.cell(f"mean_norm_trend/stacked={stacked}/check_shape={check_shape}/{kw['mesh_type']}")
    apply_mean_norm_trend(pos, f, **kw)
    if not w.verify("apply_mean_norm_trend", check_shape=check_shape):
        return
    remove_trend_norm_mean(pos, f, **kw)
    if not w.verify("remove_trend_norm_mean", check_shape=check_shape):
        return
    remove_trend_norm_mean(pos, f, fit_normalizer=True, **dict(kw, normalizer=gs.normalizer.BoxCox()))
    w.verify("remove_trend_norm_mean(fit_normalizer)")
    if c["layout"] != "alias":
        ctx.trivial()


def check_transform_arrays(ctx, c):
    from gstools import transform as tf

    rng = np.random.default_rng(c["cseed"])
    w = Watch(ctx)
    data = rng.normal(1.0, 0.7, size=(4, 6) if rng.random() < 0.5 else (20,))
    x = w.add("field", _layout(rng, data, c["layout"]) if c["layout"] != "list" else np.ascontiguousarray(data))
    vals = w.add("values", rng.permutation(np.array([-1.0, 0.5, 2.0, 3.5])[: int(rng.integers(3, 5))]))  # class values in the caller's order (not sorted)
    thr = w.add("thresholds", np.linspace(0.4, 1.6, len(vals) - 1))
    calls = [
        ("array_discrete(arith)", lambda: tf.array_discrete(x, vals)),
        ("array_discrete(equal)", lambda: tf.array_discrete(x, vals, thresholds="equal")),
        ("array_discrete(explicit)", lambda: tf.array_discrete(x, vals, thresholds=thr)),
        ("array_boxcox", lambda: tf.array_boxcox(x, lmbda=float(rng.choice([0.0, 0.5, 1.0])), shift=float(rng.choice([0.0, 0.3, 5.0])))),
        ("array_zinnharvey", lambda: tf.array_zinnharvey(x, conn=str(rng.choice(["high", "low"])))),
        ("array_force_moments", lambda: tf.array_force_moments(x, mean=2.0, var=0.3)),
        ("array_to_lognormal", lambda: tf.array_to_lognormal(x)),
        ("array_to_uniform", lambda: tf.array_to_uniform(x, low=-1, high=4)),
        ("array_to_arcsin", lambda: tf.array_to_arcsin(x)),
        ("array_to_uquad", lambda: tf.array_to_uquad(x, a=-3, b=5)),
    ]
    ctx.cell("transform_arrays")
    with warnings.catch_warnings():
        warnings.simplefilter("ignore")
        for name, fn in calls:
            fn()
            if not w.verify(name):
                return
    if c["layout"] != "alias":
        ctx.trivial()


def check_transform_sequence(ctx, c):
    rng = np.random.default_rng(c["cseed"])
    dim = int(rng.integers(1, 3))
    model = gs.Gaussian(dim=dim, var=0.3, len_scale=2.0, nugget=float(rng.choice([0.0, 0.05])))
    processed = bool(rng.random() < 0.5)
    if processed:
        srf = gs.SRF(model, mean=0.7, normalizer=gs.normalizer.LogNormal(), trend=_trend(dim), seed=int(rng.integers(1, 99)), mode_no=16)
    else:
        srf = gs.SRF(model, mean=0.7, seed=int(rng.integers(1, 99)), mode_no=16)
    pos = rng.uniform(0, 8, size=(dim, 15)) if dim > 1 else rng.uniform(0, 8, size=15)
    first = srf(pos)
    held = {"field#0": (first, np.array(first, copy=True))}
    ctx.event("stored_results_tracked")
    methods = ["binary", "discrete", "boxcox", "zinnharvey", "normal_force_moments", "normal_to_lognormal", "normal_to_uniform",
               "normal_to_arcsin", "normal_to_uquad", "function"]
    ctx.cell(f"transform_sequence/processed={processed}")
    seq = []
    for step in range(int(rng.integers(2, 7))):
        m = str(rng.choice(methods))
        source = str(rng.choice(srf.field_names))
        store = [True, False, f"t{step}"][int(rng.integers(0, 3))]
        kw = {}
        if m == "discrete":
            kw = dict(values=[-1.0, 0.0, 3.0], thresholds=str(rng.choice(["arithmetic", "equal"])))
        if m == "boxcox":
            kw = dict(lmbda=float(rng.choice([0.0, 0.5])), shift=float(rng.choice([0.0, 0.4])))
        if m == "function":
            kw = dict(function=lambda d, k=2.0: k * d)
        proc = processed and bool(rng.random() < 0.7)
        if not proc and processed and m in ("binary", "discrete", "zinnharvey", "normal_force_moments", "normal_to_uniform", "normal_to_arcsin", "normal_to_uquad"):
            kw["divide" if m == "binary" else "_skip"] = 0.5
            if m != "binary":
                continue
        seq.append((m, source, store, proc))
        before_names = list(srf.field_names)
        with warnings.catch_warnings():
            warnings.simplefilter("ignore")
            with np.errstate(all="ignore"):
                out = srf.transform(m, field=source, store=store, process=proc, keep_mean=bool(rng.random() < 0.5), **kw)
        ctx.event("guarded_calls")
        target = source if store is True else (store if isinstance(store, str) else None)
        for key, (arr, cp) in held.items():
            if not np.array_equal(arr, cp, equal_nan=True):
                ctx.fail({"what": "earlier-result-modified", "entry": "Field.transform", "method": m, "process": proc,
                          "store": "same-name" if store is True else ("new-name" if isinstance(store, str) else "no-store")},
                         f"array '{key}' handed out earlier changed after transform {seq[-1]} (sequence {seq})")
                return
        held[f"{m}#{step}"] = (out, np.array(out, copy=True))
        ctx.event("stored_results_tracked")
        ctx.event("arrays_guarded", len(held))
        # stored fields other than the target keep their values
        for nme in before_names:
            if nme != target:
                cur = srf[nme]
                match = [cp for (arr, cp) in held.values() if arr is cur]
                if match and not np.array_equal(cur, match[0], equal_nan=True):
                    ctx.fail({"what": "stored-field-modified", "entry": "Field.transform", "method": m}, f"stored '{nme}' changed")
                    return


def check_covmodel_funcs(ctx, c):
    rng = np.random.default_rng(c["cseed"])
    w = Watch(ctx)
    name = str(rng.choice(common.MODELS))
    dim = int(rng.choice(common.valid_dims(name)))
    d = common.draw_model(rng, name, dim, "interior")
    model = common.build_model(d)
    lay = c["layout"] if c["layout"] != "list" else "alias"
    r = w.add("r", _layout(rng, np.abs(rng.normal(0, 3, size=9)), lay))
    pos = w.add("pos", _layout(rng, rng.normal(0, 3, size=(dim, 9)), lay))
    k = w.add("k", np.ascontiguousarray(np.abs(rng.normal(0, 2, size=7))))
    ctx.cell(f"covmodel_funcs/{name}")
    with warnings.catch_warnings():
        warnings.simplefilter("ignore")
        with np.errstate(all="ignore"):
            for fn in ("variogram", "covariance", "correlation", "vario_nugget", "cov_nugget"):
                getattr(model, fn)(r)
            for fn in ("vario_spatial", "cov_spatial", "cor_spatial", "isometrize", "anisometrize"):
                getattr(model, fn)(pos)
            for fn in ("vario_axis", "cov_axis", "cor_axis"):
                getattr(model, fn)(r, axis=dim - 1)
            for fn in ("spectrum", "spectral_density", "spectral_rad_pdf", "ln_spectral_rad_pdf"):
                getattr(model, fn)(k)
            if model.has_cdf:
                model.spectral_rad_cdf(k)
            if model.has_ppf:
                u = w.add("u", np.ascontiguousarray(rng.uniform(0.05, 0.95, size=5)))
                model.spectral_rad_ppf(u)
            ls = w.add("len_scale_list", np.ascontiguousarray(rng.uniform(1, 3, size=dim)))
            an = w.add("anis_arr", np.ascontiguousarray(rng.uniform(0.5, 2, size=max(dim - 1, 1))))
            ag = w.add("angles_arr", np.ascontiguousarray(rng.uniform(-1, 1, size=max(dim * (dim - 1) // 2, 1))))
            model.len_scale = ls
            model.anis = an
            model.angles = ag
            getattr(gs, name)(dim=dim, len_scale=ls, anis=an, angles=ag, **d.get("opt", {}))
            # the same arguments for the other coordinate configurations (their setters rewrite parts of anis / angles)
            if common.max_valid_dim(name) >= 3:
                an3 = w.add("anis_arr(latlon)", np.ascontiguousarray(rng.uniform(1.5, 4, size=3)))
                ag6 = w.add("angles_arr(latlon)", np.ascontiguousarray(rng.uniform(-1, 1, size=6)))
                for cfg in (dict(latlon=True), dict(latlon=True, temporal=True), dict(temporal=True, spatial_dim=2)):
                    try:
                        m2 = getattr(gs, name)(anis=an3, angles=ag6, **cfg, **d.get("opt", {}))
                        m2.anis = an3
                        m2.angles = ag6
                        m2.len_scale = w.add("len_scale_list(cfg)", np.ascontiguousarray(rng.uniform(1, 3, size=4))) if False else m2.len_scale
                    except ValueError:
                        pass
    w.verify(f"CovModel functions", model=name)
    if c["layout"] != "alias":
        ctx.trivial()


def check_geometric(ctx, c):
    from gstools.tools import geometric as geo

    rng = np.random.default_rng(c["cseed"])
    w = Watch(ctx)
    latlon = w.add("latlon", _layout(rng, np.array([rng.uniform(-80, 80, size=6), rng.uniform(-170, 170, size=6)]), c["layout"]))
    xyz = geo.latlon2pos(latlon, radius=3.0)
    w.add("xyz", xyz)
    geo.pos2latlon(xyz, radius=3.0)
    llt = w.add("latlon_t", np.ascontiguousarray(np.vstack([np.asarray(latlon, dtype=float), rng.uniform(0, 5, size=(1, 6))])))
    geo.pos2latlon(geo.latlon2pos(llt, temporal=True, time_scale=2.0), temporal=True, time_scale=2.0)
    d = w.add("dist", np.ascontiguousarray(rng.uniform(0, 2, size=5)))
    geo.chordal_to_great_circle(d)
    geo.great_circle_to_chordal(d)
    ang = w.add("angles", np.ascontiguousarray(rng.uniform(0, 3, size=(2, 2))))
    geo.ang2dir(ang)
    axes = tuple(w.add(f"ax{i}", np.sort(rng.uniform(0, 3, size=3))) for i in range(2))
    geo.generate_grid(axes)
    t = w.add("time", np.ascontiguousarray(rng.uniform(0, 3, size=4)))
    geo.generate_st_grid(axes, t, mesh_type="structured")
    geo.rotated_main_axes(3, w.add("ang3", np.ascontiguousarray(rng.uniform(-1, 1, size=3))))
    ctx.cell("geometric")
    w.verify("tools.geometric")
    if c["layout"] != "alias":
        ctx.trivial()


def check_vtk(ctx, c):
    import os
    import tempfile

    rng = np.random.default_rng(c["cseed"])
    w = Watch(ctx)
    dim = 2
    srf = gs.SRF(gs.Gaussian(dim=dim), seed=2, mode_no=8)
    structured = bool(rng.random() < 0.5)
    if structured:
        axes = [np.linspace(0, 3, 4), np.linspace(0, 2, 3)]
        f = srf.structured(axes)
    else:
        f = srf(rng.uniform(0, 3, size=(2, 9)))
    w.add("stored field", f)
    ctx.event("stored_results_tracked")
    ctx.cell(f"vtk/{'structured' if structured else 'unstructured'}")
    root = os.environ.get("GSVERIF_ROOT", "/verif")
    os.makedirs(os.path.join(root, ".build", "tmp"), exist_ok=True)
    with tempfile.TemporaryDirectory(dir=os.path.join(root, ".build", "tmp")) as tmp:
        srf.vtk_export(os.path.join(tmp, "f"))
        p = w.add("pos", np.ascontiguousarray(rng.uniform(0, 3, size=(3, 5))))
        fl = w.add("fields", np.ascontiguousarray(rng.normal(size=5)))
        gs.vtk_export(os.path.join(tmp, "g"), p, {"a": fl}, mesh_type="unstructured")
        gs.to_vtk(p, {"a": fl}) if False else None
    w.verify("vtk_export")


CHECKS = {
    "vario_estimate": check_vario_estimate, "vario_latlon": check_vario_latlon, "vario_axis": check_vario_axis,
    "standard_bins": check_standard_bins, "krige": check_krige, "srf": check_srf, "condsrf": check_condsrf,
    "field_call": check_field_call, "mesh": check_mesh, "fit_variogram": check_fit_variogram, "normalizer": check_normalizer,
    "mean_norm_trend": check_mean_norm_trend, "transform_arrays": check_transform_arrays,
    "transform_sequence": check_transform_sequence, "covmodel_funcs": check_covmodel_funcs, "geometric": check_geometric,
    "vtk": check_vtk,
}
