"""C18 – normalizers are invertible monotone maps; the mean/norm/trend pipeline is exact."""

import math
import warnings

import numpy as np

from gsverif import common
from gsverif.common import gs
from gsverif.oracles import norm as onorm

SHARDS = {"quick": 8, "thorough": 16}
TIMEOUT = {"quick": 900, "thorough": 3600}
REQUIRED_EVENTS = ["roundtrip_values", "derivative_values", "loglik_compared", "fit_checked", "pipeline_compared"]
RULE = (
    "normalizer x parameter (both signs, special values 0/2 and +-1e-9 neighbours) x data grids over the valid range incl. "
    "boundaries, NaN, out-of-range values; pipeline cases: field class x normalizer x mean/trend kind x mesh type; "
    "non-trivial = a non-identity normalizer or a non-zero mean/trend is involved"
    " Also: likelihood samples with NaN / out-of-range entries; fit(skip=...) on the two-parameter normalizer; one instance whose parameters change between calls vs fresh instances; vector-valued mean/trend; the array the user keeps."
)
ASSUMPTIONS = [
    "gsverif/oracles/norm.py is an independent transcription of the documented transformation formulas",
    "scipy.stats.boxcox_normmax / yeojohnson_normmax as second opinion for the fitted parameter",
]
LEVEL_TEXT = (
    "Runtime oracle monitoring: round trips, monotonicity, derivative, likelihood and fitted parameters of every normalizer "
    "are compared with an independent transcription of the formulas on seeded data; the output of every field class is "
    "compared with trend + denormalize(mean + raw) recomputed by the oracle."
)
TECHNIQUE = "runtime oracle monitor (independent formulas, Richardson derivative, likelihood definition) + pipeline re-computation"

LAMBDAS = [-2.0, -0.5, -1e-9, 0.0, 1e-9, 0.5, 1.0, 2.0, 2.0 - 1e-9, 2.0 + 1e-9, 3.0]
NORMS = ["LogNormal", "BoxCox", "BoxCoxShift", "YeoJohnson", "Modulus", "Manly"]


def _make(name, p):
    # parameters are numbers of whatever type the user has at hand: Python ints, numpy integers, 0-d arrays
    q = dict(p)
    for k, v in p.items():
        if float(v) == int(float(v)) and abs(float(v)) < 100:
            # (float32 parameters are left out: the package then computes in single precision, which is the user's choice)
            q[k] = [int(float(v)), np.int64(int(float(v))), float(v), np.array(float(v))][(int(abs(float(v)) * 7) + len(name) + len(k)) % 4]
    return getattr(gs.normalizer, name)(**q)


def _params(name, lam, shift):
    if name == "LogNormal":
        return {}
    if name == "BoxCoxShift":
        return {"lmbda": lam, "shift": shift}
    return {"lmbda": lam}


def _eff(p):
    """The code documents lmbda==0 / ==2 as special cases and treats |lmbda-special| <~ 1e-8 alike."""
    q = dict(p)
    if "lmbda" in q:
        for sp in (0.0, 2.0):
            if abs(q["lmbda"] - sp) <= 1.0e-8 + 1e-5 * abs(sp) * 0:
                pass
    return q


def generate(tier, seed):
    rng = np.random.default_rng([seed, 18])
    n = {"quick": 4, "thorough": 300}[tier]
    cases = []
    for rep in range(2 * n):
        for name in NORMS:
            lams = [1.0] if name == "LogNormal" else LAMBDAS + [round(float(rng.uniform(-2.5, 3.5)), 3) for _ in range(2)]
            for lam in lams:
                for shift in ([0.0, 0.5, -1.0] if name == "BoxCoxShift" else [0.0]):
                    p = _params(name, lam, shift)
                    cases.append(("maps", {"norm": name, "p": p, "dseed": int(rng.integers(1 << 30))}))
                    if rep == 0:
                        cases.append(("loglik", {"norm": name, "p": p, "dseed": int(rng.integers(1 << 30)), "n": int(rng.choice([5, 40, 300]))}))
    for rep in range(3 * n):
        for name in NORMS[1:]:
            lam = float(rng.choice([-0.7, -0.2, 0.0, 0.3, 0.6, 1.0, 1.4]))
            cases.append(("fit", {"norm": name, "lam": lam, "dseed": int(rng.integers(1 << 30)), "n": int(rng.choice([200, 1000]))}))
    for rep in range(3 * n):
        cases.append(("fit_skip", {"lam": float(rng.choice([-0.5, 0.0, 0.3, 0.6, 1.0, 1.4])), "skip": [None, ["shift"], ["lmbda"], ["lmbda", "shift"]][int(rng.integers(0, 4))],
                                   "dseed": int(rng.integers(1 << 30)), "n": int(rng.choice([200, 600]))}))
        cases.append(("live", {"norm": str(rng.choice(NORMS)), "lam": float(rng.choice([-1.0, -0.5, 0.0, 0.5, 1.0, 2.0])), "dseed": int(rng.integers(1 << 30))}))
    classes = ["Field", "SRF", "SRFvec", "Krige", "CondSRF"]
    for rep in range(6 * n):
        for cls in classes:
            name = str(rng.choice(["Normalizer"] + NORMS))
            lam = float(rng.choice([-0.5, 0.0, 0.3, 1.0, 1.5]))
            cases.append(("pipeline", {
                "cls": cls, "norm": name, "p": _params(name, lam, 0.5) if name != "Normalizer" else {},
                "mean": str(rng.choice(["none", "const", "callable"] if cls != "SRFvec" else ["none", "const"])),
                "trend": str(rng.choice(["none", "const", "callable"] if cls != "SRFvec" else ["none", "const"])),
                "dim": int(rng.choice([1, 2, 3])) if cls != "SRFvec" else int(rng.choice([2, 3])),
                "structured": bool(rng.random() < 0.4), "seed": int(rng.integers(1, 1 << 20)), "dseed": int(rng.integers(1 << 30)),
            }))
    for rep in range(8 * n):
        name = str(rng.choice(NORMS))
        cases.append(("inverse_pipeline", {"norm": name, "p": _params(name, float(rng.choice([-0.5, 0.0, 0.4, 1.0, 2.0])), 0.5),
                                           "dim": int(rng.choice([1, 2, 3])), "structured": bool(rng.random() < 0.5),
                                           "stacked": bool(rng.random() < 0.5), "dseed": int(rng.integers(1 << 30))}))
    for rep in range(8 * n):
        name = str(rng.choice(NORMS))
        cases.append(("vector_pipeline", {"norm": name, "p": _params(name, float(rng.choice([-0.5, 0.0, 0.4, 1.0, 2.0])), 0.5),
                                          "dim": int(rng.choice([2, 3])), "structured": bool(rng.random() < 0.5),
                                          "mean": str(rng.choice(["none", "scalar", "vector", "callable"])),
                                          "trend": str(rng.choice(["none", "scalar", "vector", "callable"])), "dseed": int(rng.integers(1 << 30))}))
    return cases


def _xgrid(name, p, rng, n=60):
    lo, hi = onorm.x_range(name, p)
    if lo > -math.inf:
        base = lo + np.exp(rng.uniform(math.log(1e-6), math.log(50.0), size=n))
        extra = [lo + 1e-300 if lo == 0 else lo + 1e-12, lo + 1.0]
    else:
        base = np.concatenate([rng.normal(0, 3, size=n // 2), rng.uniform(-30, 30, size=n // 2)])
        extra = [0.0, -0.0, 1e-12, -1e-12, 1.0, -1.0]
    return np.unique(np.concatenate([base, extra]))


def check_maps(ctx, c):
    name, p = c["norm"], c["p"]
    rng = np.random.default_rng(c["dseed"])
    norm = _make(name, p)
    lam = p.get("lmbda", 1.0)
    ctx.cell(f"maps/{name}/lam={lam:g}")
    x = _xgrid(name, p, rng)
    # restrict to x whose image is representable and inside the y-range with margin (Manly with large lam*x overflows)
    with np.errstate(all="ignore"):
        yo = onorm.forward(name, p, x)
        dyo = onorm.derivative(name, p, x)
    ok = np.isfinite(yo) & np.isfinite(dyo) & (dyo > 1e-200) & (np.abs(yo) < 1e150)
    # images must lie strictly inside the y-range in floating point (saturation at the asymptote is not an input class)
    ylo_, yhi_ = onorm.y_range(name, p)
    if ylo_ > -math.inf:
        ok &= yo - ylo_ > 1e-6 * max(1.0, abs(ylo_))
    if yhi_ < math.inf:
        ok &= yhi_ - yo > 1e-6 * max(1.0, abs(yhi_))
    x, yo, dyo = x[ok], yo[ok], dyo[ok]
    if x.size < 5:
        ctx.discard("too few representable data points")
        return
    with warnings.catch_warnings(record=True) as rec:
        warnings.simplefilter("always")
        with np.errstate(all="ignore"):
            y = norm.normalize(x)
            back = norm.denormalize(y)
            der = norm.derivative(x)
    if any("out of range" in str(w.message) for w in rec):
        # valid inputs were declared out of range (normalize side) or their images were (denormalize side)
        ctx.fail({"what": "valid-input-declared-out-of-range", "norm": name},
                 f"{name}{p}: {[str(w.message)[:120] for w in rec][:2]}")
    # (1) forward values agree with the documented formula (special-value neighbourhoods: analytic limit, looser)
    near_special = any(abs(lam - s) < 1e-6 and lam != s for s in (0.0, 2.0))
    tolf = 1e-6 if near_special else 1e-10
    e = np.abs(y - yo) / np.maximum(1.0, np.abs(yo))
    ctx.event("forward_values", x.size)
    if not np.all(np.isfinite(y)) or np.max(e) > tolf:
        i = int(np.nanargmax(np.where(np.isfinite(e), e, np.inf)))
        ctx.fail({"what": "normalize!=documented-formula", "norm": name}, f"{name}{p}: x={x[i]!r} got {y[i]!r} want {yo[i]!r}")
    # (2) round trip; rounding of y is amplified by 1/y'(x)
    tol = 1e-10 * np.abs(x) + 64 * 2.3e-16 * (np.abs(yo) + 1e-300) / dyo + 1e-300
    if near_special:
        tol = tol + 1e-7 * (1 + np.abs(x))
    # formulas built on (|x| + 1) or (x + shift) carry the absolute rounding of that sum
    if name in ("YeoJohnson", "Modulus", "BoxCoxShift"):
        # ((1+|x|)^e - 1)/e cancels for small exponents e: absolute rounding eps/|e|
        expo = [abs(lam)] + ([abs(2.0 - lam)] if name == "YeoJohnson" else [])
        expo = min([1.0] + [e for e in expo if e > 1e-8])
        tol = tol + 64 * 2.3e-16 * (1.0 + abs(p.get("shift", 0.0))) / expo
    err = np.abs(back - x)
    ctx.event("roundtrip_values", x.size)
    bad = ~(err <= tol)
    if np.any(bad):
        i = int(np.argmax(np.where(bad, np.nan_to_num(err, nan=np.inf) / tol, 0)))
        ctx.fail({"what": "denormalize(normalize(x))!=x", "norm": name},
                 f"{name}{p}: x={x[i]!r} -> y={y[i]!r} -> {back[i]!r} (tol {tol[i]:.2e})")
    with np.errstate(all="ignore"):
        ctx.resolve("roundtrip_rel", float(np.nanmax(err / np.maximum(np.abs(x), 1e-12) * (err > 0))))
    # (3) strictly increasing
    order = np.argsort(x)
    xs, ys = x[order], y[order]
    dy = np.diff(ys)
    resolvable = dyo[order][:-1] * np.diff(xs) > 1e-11 * np.maximum(1.0, np.abs(ys[:-1]))
    if not np.all(dy >= 0) or np.any(resolvable & ~(dy > 0)):
        i = int(np.argmax((dy < 0) | (resolvable & ~(dy > 0))))
        ctx.fail({"what": "normalize-not-increasing", "norm": name}, f"{name}{p}: y({xs[i]!r})={ys[i]!r} >= y({xs[i+1]!r})={ys[i+1]!r}")
    # (4) derivative: against the analytic derivative of the documented formula and against a Richardson
    #     extrapolated central difference of the code's own normalize
    ed = np.abs(der - dyo) / dyo
    ctx.event("derivative_values", x.size)
    if np.max(ed) > (1e-6 if near_special else 1e-9):
        i = int(np.argmax(ed))
        ctx.fail({"what": "derivative!=true-derivative", "norm": name}, f"{name}{p}: x={x[i]!r} derivative {der[i]!r} want {dyo[i]!r}")
    lo, hi = onorm.x_range(name, p)
    inner = (x - lo > 1e-2) & (np.abs(x) > 1e-2)  # keep the stencil inside the range and off the |x| kink
    if np.any(inner):
        xi = x[inner]
        h = 1e-3 * np.maximum(1e-2, np.minimum(np.abs(xi), xi - lo if lo > -math.inf else np.abs(xi)))
        with np.errstate(all="ignore"):
            d1 = (norm.normalize(xi + h) - norm.normalize(xi - h)) / (2 * h)
            d2 = (norm.normalize(xi + h / 2) - norm.normalize(xi - h / 2)) / h
        rich = (4 * d2 - d1) / 3
        en = np.abs(rich - der[inner]) / np.abs(rich)
        if np.nanmax(en) > 1e-6:
            i = int(np.nanargmax(en))
            ctx.fail({"what": "derivative!=numerical-derivative", "norm": name},
                     f"{name}{p}: x={xi[i]!r} reported {der[inner][i]!r} numerical {rich[i]!r}")
    # (5) NaN and out-of-range inputs -> NaN, in-range untouched
    probe = np.array([np.nan, x[0], x[-1]])
    outside = []
    if lo > -math.inf:
        outside = [lo, lo - 1e-9 * max(1.0, abs(lo)), lo - 3.0]
        probe = np.concatenate([probe, outside])
    with warnings.catch_warnings():
        warnings.simplefilter("ignore")
        with np.errstate(all="ignore"):
            yp = norm.normalize(probe)
            dp = norm.derivative(probe)
    want_nan = np.array([True, False, False] + [True] * len(outside))
    ctx.event("nan_probes", probe.size)
    if not np.array_equal(np.isnan(yp), want_nan) or not np.array_equal(np.isnan(dp), want_nan):
        ctx.fail({"what": "nan/out-of-range-handling(normalize)", "norm": name}, f"{name}{p}: probe {probe} -> {yp} / {dp}")
    # scalar and 0-d input behave like arrays (NaN for NaN / out-of-range, value otherwise)
    for sv, wn in zip(probe.tolist(), want_nan.tolist()):
        for form in (float(sv), np.array(float(sv))):
            with warnings.catch_warnings():
                warnings.simplefilter("ignore")
                with np.errstate(all="ignore"):
                    try:
                        ys = np.asarray(norm.normalize(form), dtype=float)
                    except Exception as exc:
                        ctx.fail({"what": "scalar-input-raises", "norm": name}, f"{name}{p}.normalize({sv!r}) raised {type(exc).__name__}: {exc}")
                        return
            ctx.event("nan_probes")
            if ys.size != 1 or bool(np.isnan(ys.ravel()[0])) != wn:
                ctx.fail({"what": "scalar-nan/out-of-range-handling", "norm": name}, f"{name}{p}.normalize({sv!r}) -> {ys!r}")
                return
    ylo, yhi = onorm.y_range(name, p)
    if name in ("BoxCox", "BoxCoxShift", "Manly") and (ylo > -math.inf or yhi < math.inf) and abs(lam) > 1e-6:
        edge = ylo if ylo > -math.inf else yhi
        sgn = -1.0 if ylo > -math.inf else 1.0
        yprobe = np.array([np.nan, edge + sgn * 1e-6 * max(1.0, abs(edge)), edge + sgn * 2.0, edge - sgn * 0.5 * min(1.0, abs(edge) + 0.5)])
        with warnings.catch_warnings():
            warnings.simplefilter("ignore")
            with np.errstate(all="ignore"):
                xb = norm.denormalize(yprobe)
        want = np.array([True, True, True, False])
        if not np.array_equal(np.isnan(xb), want):
            ctx.fail({"what": "nan/out-of-range-handling(denormalize)", "norm": name}, f"{name}{p}: y {yprobe} -> {xb}")
        for sv, wn in zip(yprobe.tolist(), want.tolist()):
            with warnings.catch_warnings():
                warnings.simplefilter("ignore")
                with np.errstate(all="ignore"):
                    try:
                        xs_ = np.asarray(norm.denormalize(float(sv)), dtype=float)
                    except Exception as exc:
                        ctx.fail({"what": "scalar-input-raises", "norm": name}, f"{name}{p}.denormalize({sv!r}) raised {type(exc).__name__}: {exc}")
                        return
            if xs_.size != 1 or bool(np.isnan(xs_.ravel()[0])) != wn:
                ctx.fail({"what": "scalar-nan/out-of-range-handling", "norm": name}, f"{name}{p}.denormalize({sv!r}) -> {xs_!r}")
                return


def _zsample(name, p, rng, n, sd):
    """Normal sample whose bulk lies inside the image of the normalizer (distance to the asymptote >= 5 sd)."""
    lo, hi = onorm.y_range(name, p)
    mu = 0.2
    dist = min(abs(mu - lo), abs(hi - mu))
    if not lo < mu < hi:
        mu = (lo + 1.0) if lo > -math.inf else (hi - 1.0)
        dist = 1.0
    return rng.normal(mu, min(sd, dist / 6.0), size=n)


def check_loglik(ctx, c):
    name, p = c["norm"], c["p"]
    rng = np.random.default_rng(c["dseed"])
    norm = _make(name, p)
    z = _zsample(name, p, rng, c["n"], 0.6)
    with np.errstate(all="ignore"):
        x = onorm.inverse(name, p, z)
        want = onorm.loglikelihood(name, p, x[np.isfinite(x)]) if np.all(np.isfinite(x)) else math.nan
    if not np.all(np.isfinite(x)) or not math.isfinite(want):
        ctx.discard("sample leaves the representable range")
        return
    with warnings.catch_warnings():
        warnings.simplefilter("ignore")
        got = norm.loglikelihood(x)
        kern = norm.kernel_loglikelihood(x)
    ctx.event("loglik_compared")
    ctx.cell(f"loglik/{name}")
    lam = p.get("lmbda", 1.0)
    near_special = any(abs(lam - s) < 1e-6 and lam != s for s in (0.0, 2.0))
    tol = (1e-5 if near_special else 1e-9) * max(1.0, abs(want)) * 10
    if not abs(got - want) <= tol:
        ctx.fail({"what": "loglikelihood!=ML-definition", "norm": name}, f"{name}{p}: got {got!r} want {want!r}")
    add = -0.5 * c["n"] * (math.log(2 * math.pi) + 1)
    if not abs(kern + add - got) <= 1e-9 * max(1.0, abs(got)):
        ctx.fail({"what": "kernel_loglikelihood-offset", "norm": name}, f"kernel {kern} + const {add} != {got}")
    if not abs(norm.likelihood(x) - math.exp(got)) <= 1e-9 * math.exp(got) + 1e-300:
        ctx.fail({"what": "likelihood!=exp(loglik)", "norm": name}, "likelihood mismatch")
    # missing (NaN) and out-of-range entries are documented to be treated as NaN, i.e. ignored: the likelihood of the dirty sample
    # is the likelihood of its valid part
    lo, hi = onorm.x_range(name, p)
    dirty = list(x)
    bad = [math.nan, math.nan]
    if lo > -math.inf:
        bad += [lo - 1.0, lo - 1e-3]
    if hi < math.inf:
        bad += [hi + 1.0, hi + 1e-3]
    for b in bad:
        dirty.insert(int(rng.integers(0, len(dirty) + 1)), b)
    dirty = np.array(dirty)
    with warnings.catch_warnings():
        warnings.simplefilter("ignore")
        with np.errstate(all="ignore"):
            got_d, kern_d = norm.loglikelihood(dirty), norm.kernel_loglikelihood(dirty)
    ctx.event("loglik_with_invalid_entries_compared")
    if not (abs(got_d - got) <= 1e-9 * max(1.0, abs(got)) and abs(kern_d - kern) <= 1e-9 * max(1.0, abs(kern))):
        ctx.fail({"what": "loglikelihood-counts-invalid-entries", "norm": name},
                 f"{name}{p}: {len(bad)} NaN/out-of-range entries added: loglikelihood {got_d!r} (clean {got!r}), kernel {kern_d!r} (clean {kern!r})")


def check_fit(ctx, c):
    name, lam = c["norm"], c["lam"]
    rng = np.random.default_rng(c["dseed"])
    p_true = _params(name, lam, 0.5)
    z = _zsample(name, p_true, rng, c["n"], 0.35)
    with np.errstate(all="ignore"):
        x = onorm.inverse(name, p_true, z)
    if not np.all(np.isfinite(x)):
        ctx.discard("sample leaves the representable range")
        return
    norm = _make(name, {k: v for k, v in p_true.items() if k == "shift"})
    with warnings.catch_warnings():
        warnings.simplefilter("ignore")
        res = norm.fit(x, skip=["shift"] if name == "BoxCoxShift" else None)
    ctx.event("fit_checked")
    ctx.cell(f"fit/{name}")
    lam_hat = float(norm.lmbda)
    if not abs(float(res["lmbda"]) - lam_hat) <= 0:
        ctx.fail({"what": "fit-result!=state", "norm": name}, f"returned {res} but lmbda={lam_hat}")
    p_hat = dict(p_true, lmbda=lam_hat)

    def ll(l):
        with np.errstate(all="ignore"):
            return onorm.loglikelihood(name, dict(p_true, lmbda=l), x)

    l_hat = ll(lam_hat)
    # local maximiser of the likelihood definition (oracle evaluation)
    for d in (1e-3, 1e-2, 1e-1):
        for s in (-1, 1):
            other = ll(lam_hat + s * d)
            if math.isfinite(other) and other > l_hat + 1e-6 * max(1.0, abs(l_hat)):
                ctx.fail({"what": "fit-not-a-maximiser", "norm": name},
                         f"{name}: loglik({lam_hat + s*d:.5f})={other:.8f} > loglik(fit {lam_hat:.5f})={l_hat:.8f}")
                return
    if ll(lam) > l_hat + 1e-6 * max(1.0, abs(l_hat)):
        ctx.fail({"what": "fit-below-truth", "norm": name}, f"loglik(true {lam})={ll(lam)} > loglik(fit {lam_hat})={l_hat}")
    # recovery: the MLE is within 6 standard errors of the truth (curvature of the oracle likelihood)
    d = 1e-3
    curv = -(ll(lam_hat + d) - 2 * l_hat + ll(lam_hat - d)) / d**2
    if curv > 0:
        se = 1 / math.sqrt(curv)
        ctx.resolve("fit_se", se)
        if not abs(lam_hat - lam) <= 6 * se + 1e-3:
            ctx.fail({"what": "fit-does-not-recover-parameter", "norm": name}, f"true {lam} fitted {lam_hat} se {se:.3g}")
    import scipy.stats as st

    if name == "BoxCox":
        ref = float(st.boxcox_normmax(x, method="mle"))
    elif name == "YeoJohnson":
        ref = float(st.yeojohnson_normmax(x))
    else:
        ref = None
    if ref is not None and abs(ref - lam_hat) > 1e-3 * max(1.0, abs(ref)) and abs(ll(ref) - l_hat) > 1e-6 * max(1.0, abs(l_hat)):
        ctx.fail({"what": "fit!=scipy-mle", "norm": name}, f"scipy {ref} vs {lam_hat}")


def check_fit_skip(ctx, c):
    """fit(skip=[...]): skipped parameters keep their value, the others maximise the likelihood, the returned dict is the state."""
    rng = np.random.default_rng(c["dseed"])
    lam, shift = c["lam"], 0.5
    p_true = {"lmbda": lam, "shift": shift}
    z = _zsample("BoxCoxShift", p_true, rng, c["n"], 0.35)
    with np.errstate(all="ignore"):
        x = onorm.inverse("BoxCoxShift", p_true, z)
    if not np.all(np.isfinite(x)):
        ctx.discard("sample leaves the representable range")
        return
    skip = c["skip"]
    start = {"lmbda": float(rng.choice([0.5, 1.0, lam])), "shift": shift if "shift" in (skip or []) else float(shift + rng.uniform(0.0, 0.3))}
    norm = gs.normalizer.BoxCoxShift(**start)
    with warnings.catch_warnings():
        warnings.simplefilter("ignore")
        with np.errstate(all="ignore"):
            res = norm.fit(x, skip=skip)
    ctx.event("fit_checked")
    ctx.cell(f"fit_skip/{'+'.join(skip) if skip else 'none'}")
    state = {"lmbda": float(norm.lmbda), "shift": float(norm.shift)}
    mech = {"what": "fit(skip)", "norm": "BoxCoxShift", "skip": str(skip)}
    if skip and set(skip) == set(state):
        # nothing left to fit: documented to warn and return {}; the state must be untouched
        if res or state != start:
            ctx.fail(dict(mech, what="fit-with-everything-skipped"), f"returned {res}, state {state}, before {start}")
        return
    if set(res) != set(state) or any(not (float(res[k]) == state[k] or (math.isnan(float(res[k])) and math.isnan(state[k]))) for k in state):
        ctx.fail(dict(mech, what="fit-result!=state"), f"returned {res}, state {state}")
        return
    for k in skip or []:
        if state[k] != start[k]:
            ctx.fail(dict(mech, what="skipped-parameter-changed", par=k), f"skip={skip}: {k} was {start[k]} and is {state[k]} after the fit")
            return

    def ll(p):
        with np.errstate(all="ignore"):
            v = onorm.loglikelihood("BoxCoxShift", p, x[(x + p["shift"]) > 0])
        return v if (math.isfinite(v) and np.all(x + p["shift"] > 0)) else -math.inf

    l_hat = ll(state)
    # a free shift makes the likelihood unbounded (x + shift -> 0): the maximum-likelihood definition only exists for lmbda with the
    # shift held fixed, which is what is asserted
    if "shift" not in (skip or []):
        ctx.event("fit_with_free_shift(no ML reference)")
        return
    for k in state:
        if k in (skip or []):
            continue
        for d in (1e-3, 1e-2, 1e-1):
            for sgn in (-1, 1):
                other = ll(dict(state, **{k: state[k] + sgn * d}))
                if other > l_hat + 1e-5 * max(1.0, abs(l_hat)):
                    ctx.fail(dict(mech, what="fit-not-a-maximiser", par=k), f"skip={skip}: loglik({k}={state[k] + sgn * d:.4f})={other:.6f} > loglik(fit {state})={l_hat:.6f}")
                    return


def check_live(ctx, c):
    """One normalizer instance whose parameters change (by hand or by a fit) between calls behaves like a fresh instance."""
    rng = np.random.default_rng(c["dseed"])
    name = c["norm"]
    p0 = _params(name, c["lam"], 0.5)
    norm = _make(name, p0)
    ctx.cell(f"live/{name}")
    for step in range(3):
        p = dict(p0) if step == 0 else _params(name, float(rng.choice([-1.0, -0.5, 0.0, 0.5, 1.0, 2.0])), 0.5)
        if step:
            for k, v in p.items():
                setattr(norm, k, v)
        fresh = _make(name, p)
        lo, hi = onorm.y_range(name, p)
        y = rng.normal(0.0, 1.5, size=40)
        xx = rng.normal(0.5, 1.5, size=40)
        with warnings.catch_warnings():
            warnings.simplefilter("ignore")
            with np.errstate(all="ignore"):
                for fn, arg in (("denormalize", y), ("normalize", xx), ("derivative", xx)):
                    a, b = np.asarray(getattr(norm, fn)(arg), dtype=float), np.asarray(getattr(fresh, fn)(arg), dtype=float)
                    ctx.event("live_calls_compared")
                    if not np.array_equal(a, b, equal_nan=True):
                        i = int(np.argmax(~((a == b) | (np.isnan(a) & np.isnan(b)))))
                        ctx.fail({"what": "normalizer-instance-depends-on-history", "norm": name, "fn": fn},
                                 f"{name} after setting {p} (step {step}): {fn}({arg[i]!r}) = {a[i]!r}, fresh instance {b[i]!r}")
                        return
                for rg in ("normalize_range", "denormalize_range"):
                    if tuple(np.asarray(getattr(norm, rg), dtype=float)) != tuple(np.asarray(getattr(fresh, rg), dtype=float)):
                        ctx.fail({"what": "normalizer-range-depends-on-history", "norm": name, "range": rg}, f"{rg}: {getattr(norm, rg)} vs fresh {getattr(fresh, rg)} for {p}")
                        return


def _mean_trend(kind, dim, rng, scale=1.0):
    if kind == "none":
        return None, (lambda *x: 0.0 * x[0])
    if kind == "const":
        v = round(float(rng.uniform(0.2, 1.0)) * scale, 3)
        return v, (lambda *x: v + 0.0 * x[0])
    co = [round(float(v), 3) for v in rng.uniform(-0.05, 0.05, size=dim)]
    off = round(float(rng.uniform(0.2, 0.6)) * scale, 3)

    def f(*x):
        return off + sum(ci * np.asarray(xi) for ci, xi in zip(co, x))

    return f, f


def check_pipeline(ctx, c):
    rng = np.random.default_rng(c["dseed"])
    dim, cls, name, p = c["dim"], c["cls"], c["norm"], c["p"]
    with warnings.catch_warnings():
        warnings.simplefilter("ignore")
        model = gs.Gaussian(dim=dim, var=0.05, len_scale=2.0)
    norm = getattr(gs.normalizer, name)(**p) if name != "Normalizer" else None
    mean, fmean = _mean_trend(c["mean"], dim, rng)
    trend, ftrend = _mean_trend(c["trend"], dim, rng)
    vec = cls == "SRFvec"
    if vec:
        norm, name, p = None, "Normalizer", {}
    if c["structured"]:
        axes = [np.sort(rng.uniform(0, 5, size=int(rng.integers(2, 5)))) for _ in range(dim)]
        pos = axes if dim > 1 else axes[0]
        grid = np.array(np.meshgrid(*axes, indexing="ij"))
        shape = grid.shape[1:]
        mt = "structured"
    else:
        pts = rng.uniform(0, 5, size=(dim, 11))
        pos, grid, shape, mt = pts, pts, (11,), "unstructured"
    kw = dict(mean=mean, normalizer=norm, trend=trend)
    with warnings.catch_warnings():
        warnings.simplefilter("ignore")
        if cls == "Field":
            obj = gs.field.Field(model, **kw)
            given = rng.normal(0.5, 0.1, size=shape)
            held = given.copy()  # the array the user hands over and keeps: the documented relation is stated for *it*
            out = obj(pos, field=held, mesh_type=mt)
            raw = obj(pos, field=given.copy(), mesh_type=mt, post_process=False, store="raw")
            if not np.array_equal(np.asarray(raw, dtype=float).reshape(held.shape), held):
                ctx.fail({"what": "raw-field-the-user-holds!=raw-field-processed", "cls": cls, "norm": name},
                         f"Field(pos, field=arr): arr differs afterwards from the raw field by {common.maxabs(np.asarray(raw).reshape(held.shape) - held):.3e}")
                return
        elif cls in ("SRF", "SRFvec"):
            gen = dict(generator="VectorField", mode_no=32) if vec else dict(mode_no=32)
            if c["mean"] == "none":
                kw["mean"] = 0.0
            obj = gs.SRF(model, seed=c["seed"], **gen, **kw)
            out = obj(pos, mesh_type=mt)
            raw = obj(pos, mesh_type=mt, post_process=False, store="raw")
        else:
            cp = rng.uniform(0, 5, size=(dim, 5))
            zc = rng.normal(0.5, 0.15, size=5)
            with np.errstate(all="ignore"):
                cv = onorm.inverse(name, p, zc) + np.asarray(ftrend(*cp))
            if not np.all(np.isfinite(cv)):
                ctx.discard("conditioning values leave the representable range")
                return
            kr = gs.krige.Krige(model, cp, cv, unbiased=False, **kw)
            if cls == "Krige":
                obj = kr
                out, _ = obj(pos, mesh_type=mt)
                raw, _ = obj(pos, mesh_type=mt, post_process=False, store=["raw", "rawvar"])
            else:
                obj = gs.CondSRF(kr, seed=c["seed"], mode_no=32)
                out = obj(pos, mesh_type=mt)
                raw = obj(pos, mesh_type=mt, post_process=False, store=["rawf", "rr", "rk"])
    raw = np.asarray(raw, dtype=float)
    m = np.asarray(fmean(*grid), dtype=float)
    t = np.asarray(ftrend(*grid), dtype=float)
    if vec:
        # vector valued constant mean/trend are broadcast over components; callables return scalars per point
        pass
    with np.errstate(all="ignore"):
        want = t + onorm.inverse(name, p, (m + raw).ravel()).reshape(raw.shape)
    ctx.event("pipeline_compared")
    ctx.cell(f"pipe/{cls}/{name}/{mt}")
    if name == "Normalizer" and c["mean"] == "none" and c["trend"] == "none":
        ctx.trivial()
    if not np.all(np.isfinite(want)):
        ctx.discard("pipeline leaves the representable range")
        return
    err = common.maxabs(np.asarray(out, dtype=float) - want) / max(1.0, common.maxabs(want))
    ctx.resolve("pipeline_rel", err)
    if np.shape(out) != np.shape(want) or not err <= 1e-10:
        ctx.fail({"what": "output!=trend+denormalize(mean+raw)", "cls": cls, "norm": name},
                 f"{cls} {name}{p} mean={c['mean']} trend={c['trend']} {mt}: rel err {err:.3e}")


def check_inverse_pipeline(ctx, c):
    from gstools.normalizer import apply_mean_norm_trend, remove_trend_norm_mean

    rng = np.random.default_rng(c["dseed"])
    dim, name, p = c["dim"], c["norm"], c["p"]
    norm = getattr(gs.normalizer, name)(**p)
    mean, fmean = _mean_trend("callable", dim, rng)
    trend, ftrend = _mean_trend("callable", dim, rng)
    if c["structured"]:
        axes = [np.sort(rng.uniform(0, 5, size=int(rng.integers(2, 5)))) for _ in range(dim)]
        pos = axes if dim > 1 else axes[0]
        shape = tuple(len(a) for a in axes)
        mt = "structured"
    else:
        pos, shape, mt = rng.uniform(0, 5, size=(dim, 9)), (9,), "unstructured"
    if c["stacked"]:
        shape = (3,) + shape
    z = rng.normal(0.0, 0.1, size=shape)
    kw = dict(mean=mean, normalizer=norm, trend=trend, mesh_type=mt, stacked=c["stacked"])
    with warnings.catch_warnings():
        warnings.simplefilter("ignore")
        with np.errstate(all="ignore"):
            f = apply_mean_norm_trend(pos, z.copy(), **kw)
            back = remove_trend_norm_mean(pos, np.array(f), **kw)
    ctx.event("pipeline_compared")
    ctx.cell(f"invpipe/{name}/{mt}/stacked={c['stacked']}")
    if not np.all(np.isfinite(f)):
        ctx.discard("pipeline leaves the representable range")
        return
    err = common.maxabs(np.asarray(back).reshape(z.shape) - z)
    if not err <= 1e-9:
        ctx.fail({"what": "remove(apply(z))!=z", "norm": name}, f"{name}{p} {mt} stacked={c['stacked']}: {err:.3e}")


def _vec_mean_trend(kind, dim, rng):
    """Returns (argument for the API, function grid -> (dim, ...) array of the values it stands for)."""
    if kind == "none":
        return None, (lambda g: np.zeros_like(g))
    if kind == "scalar":
        v = round(float(rng.uniform(0.1, 0.5)), 3)
        return v, (lambda g: np.full_like(g, v))
    if kind == "vector":
        vs = [round(float(v), 3) for v in rng.uniform(-0.3, 0.6, size=dim)]
        return tuple(vs), (lambda g: np.stack([np.full_like(g[i], vs[i]) for i in range(dim)]))
    co = rng.uniform(-0.04, 0.04, size=(dim, dim)).round(3)
    off = rng.uniform(-0.2, 0.4, size=dim).round(3)

    def f(*x):
        return np.stack([off[i] + sum(co[i, j] * np.asarray(x[j]) for j in range(dim)) for i in range(dim)])

    return f, (lambda g: f(*g))


def check_vector_pipeline(ctx, c):
    """Vector valued fields: component-wise constants and vector valued callables for mean and trend."""
    from gstools.normalizer import apply_mean_norm_trend, remove_trend_norm_mean

    rng = np.random.default_rng(c["dseed"])
    dim, name, p = c["dim"], c["norm"], c["p"]
    norm = getattr(gs.normalizer, name)(**p)
    mean, fmean = _vec_mean_trend(c["mean"], dim, rng)
    trend, ftrend = _vec_mean_trend(c["trend"], dim, rng)
    if c["structured"]:
        axes = [np.sort(rng.uniform(0, 5, size=int(rng.integers(2, 5)))) for _ in range(dim)]
        pos, mt = axes, "structured"
        grid = np.array(np.meshgrid(*axes, indexing="ij"))
    else:
        pos, mt = rng.uniform(0, 5, size=(dim, 9)), "unstructured"
        grid = np.array(pos)
    z = rng.normal(0.0, 0.1, size=grid.shape)
    kw = dict(mean=mean, normalizer=norm, trend=trend, mesh_type=mt, value_type="vector", check_shape=False)  # shape checks are for scalar fields (Field passes False as well)
    with warnings.catch_warnings():
        warnings.simplefilter("ignore")
        with np.errstate(all="ignore"):
            f = np.asarray(apply_mean_norm_trend(pos, z.copy(), **kw), dtype=float)
            want = ftrend(grid) + onorm.inverse(name, p, (fmean(grid) + z).ravel()).reshape(z.shape)
            back = np.asarray(remove_trend_norm_mean(pos, np.array(f), **kw), dtype=float)
    ctx.event("pipeline_compared")
    ctx.cell(f"vecpipe/{name}/{mt}/mean={c['mean']}/trend={c['trend']}")
    if not (np.all(np.isfinite(f)) and np.all(np.isfinite(want))):
        ctx.discard("pipeline leaves the representable range")
        return
    mech = {"norm": name, "mean": c["mean"], "trend": c["trend"]}
    if f.shape != z.shape or not common.maxabs(f - want) <= 1e-10 * max(1.0, common.maxabs(want)):
        ctx.fail(dict(mech, what="vector:apply!=trend+denormalize(mean+raw)"), f"{name}{p} {mt}: shape {f.shape}, max dev {common.maxabs(f - want) if f.shape == z.shape else 'n/a'}")
        return
    if back.shape != z.shape or not common.maxabs(back - z) <= 1e-9:
        ctx.fail(dict(mech, what="vector:remove(apply(z))!=z"), f"{name}{p} {mt}: per component {np.max(np.abs(back - z), axis=tuple(range(1, z.ndim))) if back.shape == z.shape else back.shape}")


CHECKS = {
    "fit_skip": check_fit_skip,
    "live": check_live,
    "vector_pipeline": check_vector_pipeline,
    "maps": check_maps,
    "loglik": check_loglik,
    "fit": check_fit,
    "pipeline": check_pipeline,
    "inverse_pipeline": check_inverse_pipeline,
}
