"""C15 – compiled summation kernels equal their source semantics under every thread count."""

import glob
import json
import os
import re
import subprocess
import sys
import time
import warnings

import numpy as np

from gsverif import common
from gsverif.common import gs
from gsverif.oracles import rot as orot

SHARDS = {"quick": 12, "thorough": 12}
TIMEOUT = {"quick": 1500, "thorough": 6000}
REQUIRED_EVENTS = ["kernel_calls_native", "pyx_entry_points_interpreted", "prange_iterations_monitored", "parallel_regions_seen_by_shim",
                   "wrapper_calls_spied", "sanitizer_runs"]
RULE = (
    "9 kernel entry points x dims 1-4 x sizes {0,1,2,3,7,64,(1000, 5000)} for points/modes/bins/conditions x value classes "
    "(normal, huge phases 1e8, denormals, +-0, NaN fields, all-NaN, all-masked) x contiguous and strided memoryviews x "
    "num_threads in {None,1,2,3,4,8,16} in the shipped serial build, an OpenMP rebuild of the generated C, an ASan+UBSan "
    "build and a TSan build (libgomp happens-before shim); the .pyx sources interpreted by M-PYX with an iteration-ownership "
    "monitor; wrapper functions spied for argument / thread-count forwarding. A case = one entry point x shape x value class."
    " The positions reaching the kernels through the generators are compared with the isometrized call positions."
)
ASSUMPTIONS = [
    "Cython is not installed: native builds come from the Cython-generated C/C++ shipped next to the .pyx (OPENMP=False baked in: "
    "num_threads=None means one thread); the correspondence source <-> artefact is decided by interpreting the .pyx (M-PYX)",
    "TSan sees libgomp synchronisation only through the shim (gsverif/native/omp_tsan_shim.c); one barrier token: a race between "
    "two phases can be missed in an interleaving where a fast thread passes the next barrier early",
    "x86-64 without FMA contraction (bit-identity of interpreted source and artefact measured on this platform)",
]
LEVEL_TEXT = (
    "Runtime monitoring with sanitizers: the same kernel workload runs against the shipped artefact, an OpenMP build (bytes compared "
    "across 7 thread counts), an ASan+UBSan build and a TSan build of the generated C of the working tree; the .pyx sources are "
    "interpreted line by line (bit-compared with the artefact) under an iteration-ownership monitor; wrappers are spied."
)
TECHNIQUE = "compiler sanitizers (ASan/UBSan/TSan + libgomp shim) on rebuilt kernels + source interpretation with ownership monitor + result-hash comparison across thread counts"

ROOT = os.environ.get("GSVERIF_ROOT", "/verif")


def _inconclusive(msg):
    from gsverif.run import Inconclusive

    return Inconclusive(msg)


THREADS = [None, 1, 2, 3, 4, 8, 16]


def generate(tier, seed):
    cases = [("freshness", {"seed": seed})]
    cases.append(("native", {"flavour": "shipped", "seed": seed, "tier": tier}))
    cases.append(("native", {"flavour": "omp", "seed": seed, "tier": tier}))
    cases.append(("native", {"flavour": "asan", "seed": seed, "tier": tier}))
    cases.append(("native", {"flavour": "tsan", "seed": seed, "tier": tier, "part": 0}))
    cases.append(("native", {"flavour": "tsan", "seed": seed, "tier": tier, "part": 1}))
    cases.append(("native", {"flavour": "omp", "seed": seed + 1000, "tier": tier}))
    for ep in ("summate", "summate_incompr", "summate_fourier", "calc_field_krige_and_variance", "calc_field_krige", "unstructured",
               "directional", "structured", "ma_structured"):
        for rep in range({"quick": 2, "thorough": 10}[tier]):
            cases.append(("pyx", {"entry": ep, "seed": seed * 100 + rep}))
    cases.append(("wrappers", {"seed": seed}))
    return cases


def _spec(c, modules):
    tier = c["tier"]
    sizes = [0, 1, 2, 3, 7, 64] + ([1000] if tier == "quick" else [1000, 5000])
    spec = {"modules": modules, "threads": THREADS, "seed": c["seed"], "sizes": sizes, "api": True, "check_sums": c["flavour"] in ("shipped", "omp")}
    if c["flavour"] == "asan":
        spec["sizes"] = [0, 1, 2, 3, 7, 64, 300]
    if c["flavour"] == "tsan":
        # race reports vary from run to run: the racy workload is repeated; sizes small (TSan costs 5-15x)
        spec["sizes"] = [0, 1, 3, 7, 64] if c.get("part") == 0 else [2, 5, 33, 200]
        spec["threads"] = [2, 3, 4, 8, 16]
        spec["reps"] = 3 if tier == "thorough" else 2
    return spec


def _count_reports(logs, kernel_names=("summator", "krigesum", "estimator")):
    """Sanitizer report blocks that have at least one frame in an instrumented kernel module, de-duplicated by function + line."""
    blocks = {}
    total = 0
    for path in logs:
        txt = open(path, errors="replace").read()
        for blk in re.split(r"(?m)^(?==+\n|=================|WARNING: ThreadSanitizer|==\d+==ERROR|.*runtime error:)", txt):
            if not re.search(r"ThreadSanitizer|AddressSanitizer|runtime error|LeakSanitizer", blk):
                continue
            total += 1
            if not any(k in blk for k in kernel_names):
                continue
            frames = re.findall(r"#\d+ (?:0x[0-9a-f]+ in )?(\S+) (\S+?:\d+)", blk)
            key = tuple(sorted(set((f, re.sub(r":\d+$", "", loc)) for f, loc in frames if any(k in loc for k in kernel_names))))[:4]
            first = re.search(r"(WARNING: ThreadSanitizer: [^\n]+|ERROR: AddressSanitizer: [^\n]+|[^\n]*runtime error: [^\n]+)", blk)
            blocks.setdefault(key, (first.group(1) if first else blk[:120], blk[:1500]))
    return total, blocks


class _Crashed(Exception):
    pass


def _run_workload(fl, c, tag):
    """Run the kernel workload in a subprocess against one flavour; returns (out, log_base, tmp)."""
    from gsverif.native import build

    modules = {}
    if fl != "shipped":
        for m in build.MODULES:
            try:
                modules[m] = build.build(m, fl)[0]
            except RuntimeError as exc:
                raise _inconclusive(f"native build {m}/{fl}: {str(exc)[:200]}")
    tmp = os.path.join(ROOT, ".build", "tmp", f"c15-{tag}-{fl}-{c.get('part', 0)}-{c['seed']}-{os.getpid()}")
    os.makedirs(tmp, exist_ok=True)
    spec_p, out_p = os.path.join(tmp, "spec.json"), os.path.join(tmp, "out.json")
    json.dump(_spec(c, modules), open(spec_p, "w"))
    env = dict(os.environ)
    env.update(build.preload_env(fl))
    env["PYTHONPATH"] = os.pathsep.join([ROOT, os.path.join(ROOT, ".deps"), env.get("GSVERIF_SRC", "/repo/src")])
    env["PYTHONFAULTHANDLER"] = "1"
    log_base = os.path.join(tmp, "san")
    if fl == "asan":
        env["ASAN_OPTIONS"] = f"detect_leaks=0:halt_on_error=0:log_path={log_base}:abort_on_error=0"
        env["UBSAN_OPTIONS"] = f"print_stacktrace=1:halt_on_error=0:log_path={log_base}"
    if fl == "tsan":
        env["TSAN_OPTIONS"] = f"halt_on_error=0:exitcode=0:log_path={log_base}:report_bugs=1:history_size=4"
    env.pop("OMP_NUM_THREADS", None)
    env["OMP_WAIT_POLICY"] = "PASSIVE"  # 16-thread teams on a loaded machine: spinning at barriers only burns the other checks' cores
    try:
        r = subprocess.run([sys.executable, "-m", "gsverif.native.run_native", spec_p, out_p], env=env, capture_output=True, text=True,
                           timeout=TIMEOUT[c["tier"]] * 0.6, cwd=ROOT)
    except subprocess.TimeoutExpired:
        raise _inconclusive(f"native workload {fl} hit the watchdog")
    if r.returncode != 0 or not os.path.exists(out_p):
        # a crash of the kernel under the workload (segfault, sanitizer abort) is a witness; a harness failure is inconclusive
        tail = (r.stderr or "")[-2500:]
        total, blocks = _count_reports(glob.glob(log_base + "*"))
        if blocks:
            title, blk = next(iter(blocks.values()))
            raise _Crashed(f"rc={r.returncode}, sanitizer report with a kernel frame: {title}\n{blk[:1500]}")
        if "Segmentation fault" in tail or "runtime error:" in tail or r.returncode < 0:
            raise _Crashed(f"rc={r.returncode}: {tail[-900:]}")
        raise _inconclusive(f"native workload {fl} failed rc={r.returncode} ({total} sanitizer reports outside the kernels): {tail[-300:]}")
    return json.load(open(out_p)), log_base, tmp


def check_native(ctx, c):
    import shutil

    fl = c["flavour"]
    mech = {"flavour": fl}
    ctx.cell(f"native/{fl}")
    try:
        out, log_base, tmp = _run_workload(fl, c, "main")
    except _Crashed as exc:
        ctx.fail(dict(mech, what="kernel-workload-crashed"), str(exc))
        return
    ctx.event("kernel_calls_native", out["calls"])
    ctx.event("sanitizer_runs", 1 if fl in ("asan", "tsan") else 0)
    ctx.event("native_cases", len(out["hashes"]))
    ctx.extra(f"native_{fl}_{c.get('part', 0)}_{c['seed']}", {"calls": out["calls"], "cases": len(out["hashes"]), "wall_s": round(out["wall_s"], 1), "counters": out["counters"]})
    for m, cnt in out["counters"].items():
        ctx.event("parallel_regions_seen_by_shim", cnt["parallel_regions"])
        ctx.event("barriers_seen_by_shim", cnt["barriers"])
        ctx.event("team_members_seen_by_shim", cnt["team_members"])
    try:
        # (c) result bytes identical for every thread count (and every repetition)
        for case, hs in out["hashes"].items():
            if len(set(hs.values())) > 1:
                ctx.fail(dict(mech, what="result-depends-on-thread-count", entry=case.split("/")[0]), f"{case}: {hs}")
                return
        # (a) kernel == direct evaluation of the defining sums
        for mm in out["sum_mismatch"]:
            ctx.fail(dict(mech, what="kernel!=defining-sums", entry=mm["case"].split("/")[0]), json.dumps(mm))
            return
        # (e) sanitizer reports with a frame in a kernel
        if fl in ("asan", "tsan"):
            total, blocks = _count_reports(glob.glob(log_base + "*"))
            ctx.event("sanitizer_report_blocks_total", total)
            if fl == "tsan" and sum(cn["parallel_regions"] for cn in out["counters"].values()) == 0:
                raise _inconclusive("TSan run saw no parallel region (shim counters 0)")
            for key, (title, blk) in blocks.items():
                ctx.fail(dict(mech, what="sanitizer-report-in-kernel", frames=str(key)[:200]), f"{title}\n{blk[:1200]}")
                return
        # (b) the rebuilt C of the working tree and the shipped artefact agree bit for bit (same workload, one thread)
        if fl == "omp":
            try:
                ref, _, tmp2 = _run_workload("shipped", dict(c, flavour="omp"), "ref")
            except _Crashed as exc:
                ctx.fail({"flavour": "shipped", "what": "kernel-workload-crashed"}, str(exc))
                return
            shutil.rmtree(tmp2, ignore_errors=True)
            common_cases = [k for k in out["hashes"] if k in ref["hashes"]]
            ctx.event("cross_flavour_cases", len(common_cases))
            if not common_cases:
                raise _inconclusive("no common case between the omp rebuild and the shipped artefact")
            for k in common_cases:
                a, b = out["hashes"][k].get("None"), ref["hashes"][k].get("None")
                if a != b:
                    ctx.fail(dict(mech, what="omp-rebuild!=shipped-artefact", entry=k.split("/")[0]), f"{k}: {a} vs shipped {b}")
                    return
    finally:
        shutil.rmtree(tmp, ignore_errors=True)


def check_freshness(ctx, c):
    from gsverif.native import build

    ctx.cell("freshness")
    info = {}
    for m in build.MODULES:
        missing = build.freshness(m)
        info[m] = len(missing)
        if missing:
            ctx.fail({"what": "generated-C-does-not-contain-the-current-pyx-lines", "module": m},
                     f"{m}: {len(missing)} source lines of the .pyx are absent from the embedded source comments of the generated C, e.g. {missing[:3]}")
            return
    ctx.extra("freshness_missing_lines", info)
    ctx.event("kernel_calls_native", 0)


def _arrays(rng, entry, small=True):
    dim = int(rng.integers(1, 5))
    X, N = int(rng.choice([0, 1, 2, 3, 7, 12])), int(rng.choice([0, 1, 2, 5, 9]))
    t = rng.choice([None, 1, 2, 3, 4, 8, 16])
    t = None if t is None else int(t)
    if entry in ("summate", "summate_incompr", "summate_fourier"):
        if entry == "summate_incompr":
            dim = int(rng.choice([2, 3]))
            N = max(N, 1)
        k, z1, z2, pos = rng.normal(size=(dim, N)), rng.normal(size=N), rng.normal(size=N), rng.normal(size=(dim, X)) * 4
        if entry == "summate_fourier":
            return (np.abs(rng.normal(size=N)), k, z1, z2, pos, t), ["spectrum_factor", "modes", "z_1", "z_2", "pos"]
        return (k, z1, z2, pos, t), ["cov_samples", "z_1", "z_2", "pos"]
    if entry.startswith("calc_field"):
        M, R = int(rng.choice([1, 2, 4, 7])), int(rng.choice([0, 1, 3, 8]))
        return (rng.normal(size=(M, M)), rng.normal(size=(M, R)), rng.normal(size=M), t), ["krig_mat", "krig_vecs", "cond"]
    n = int(rng.choice([0, 1, 2, 3, 8, 14])) if entry in ("unstructured", "directional") else int(rng.choice([1, 2, 3, 6]))
    est = str(rng.choice(["m", "c"]))
    if entry == "unstructured":
        hav = rng.random() < 0.3
        d2 = 2 if hav else int(rng.integers(1, 4))
        pos = np.array([rng.uniform(-90, 90, size=n), rng.uniform(-180, 180, size=n)]) if hav else rng.normal(size=(d2, n)) * 2
        f = rng.normal(size=(int(rng.integers(1, 3)), n))
        if n > 2:
            f[0, 1] = np.nan
        edges = np.linspace(0, 3.2 if hav else 5, int(rng.choice([2, 3, 6])))
        return (f, edges, pos, est, "h" if hav else "e", t), ["f", "bin_edges", "pos"]
    if entry == "directional":
        d2 = int(rng.choice([2, 3]))
        pos = rng.integers(0, 4, size=(d2, n)).astype(float) if rng.random() < 0.4 else rng.normal(size=(d2, n)) * 2
        f = rng.normal(size=(int(rng.integers(1, 3)), n))
        dr = rng.normal(size=(int(rng.integers(1, 4)), d2))
        dr /= np.linalg.norm(dr, axis=1)[:, None]
        return (f, np.linspace(0, 5, int(rng.choice([2, 4]))), pos, dr, float(rng.uniform(0.1, 1.5)), float(rng.choice([-1.0, 1.2])), bool(rng.random() < 0.5), est, t), \
            ["f", "bin_edges", "pos", "direction"]
    g = rng.normal(size=(n, int(rng.choice([1, 2, 5]))))
    if entry == "structured":
        return (g, est, t), ["f"]
    return (g, (rng.random(size=g.shape) < 0.35).astype(np.uint8), est, t), ["f", "mask"]


_PYX = {}


def _load_pyx(mod):
    from gsverif.native import build
    from gsverif.pyxinterp import translate as T

    if mod not in _PYX:
        path = os.path.join(build.SRC, build.MODULES[mod][2])
        try:
            _PYX[mod] = T.load(path, mod)[0]
        except T.Untranslatable as exc:
            raise _inconclusive(f"M-PYX cannot transliterate {mod}.pyx: {exc}")
    return _PYX[mod]


ENTRY_MOD = {"summate": "summator", "summate_incompr": "summator", "summate_fourier": "summator",
             "calc_field_krige_and_variance": "krigesum", "calc_field_krige": "krigesum",
             "unstructured": "estimator", "directional": "estimator", "structured": "estimator", "ma_structured": "estimator"}


def check_pyx(ctx, c):
    """Shipped artefact vs plain interpretation of the current source, with the iteration-ownership monitor."""
    from gsverif.pyxinterp import translate as T
    import importlib

    entry = c["entry"]
    mod = ENTRY_MOD[entry]
    ns = _load_pyx(mod)
    compiled = getattr(importlib.import_module({"summator": "gstools.field.summator", "krigesum": "gstools.krige.krigesum",
                                                "estimator": "gstools.variogram.estimator"}[mod]), entry)
    rng = np.random.default_rng([c["seed"], 1515])
    ctx.cell(f"pyx/{entry}")
    for rep in range(12):
        args, names = _arrays(rng, entry)
        T.MON.__init__()
        wrapped = [T.Rec(a, names[i]) if isinstance(a, np.ndarray) and i < len(names) else a for i, a in enumerate(args)]
        try:
            with np.errstate(all="ignore"):
                got_src = ns[entry](*wrapped)
            src_exc = None
        except ValueError as exc:
            got_src, src_exc = None, exc
        try:
            with np.errstate(all="ignore"):
                got_so = compiled(*args)
            so_exc = None
        except ValueError as exc:
            got_so, so_exc = None, exc
        ctx.event("pyx_entry_points_interpreted")
        ctx.event("prange_loops_monitored", T.MON.loops)
        ctx.event("prange_iterations_monitored", T.MON.iterations)
        mech = {"entry": entry, "module": mod}
        if (src_exc is None) != (so_exc is None):
            ctx.fail(dict(mech, what="artefact-and-source-disagree-on-argument-check"), f"source: {src_exc!r}, artefact: {so_exc!r}; shapes {[np.shape(a) for a in args]}")
            return
        if src_exc is not None:
            continue
        a = got_src if isinstance(got_src, tuple) else (got_src,)
        b = got_so if isinstance(got_so, tuple) else (got_so,)
        for x, y in zip(a, b):
            x, y = np.asarray(x), np.asarray(y)
            if x.shape != y.shape or not np.array_equal(x, y, equal_nan=True):
                ctx.fail(dict(mech, what="artefact!=interpretation-of-its-source"),
                         f"{entry}{[np.shape(v) for v in args if isinstance(v, np.ndarray)]}: source semantics {x.ravel()[:6]} vs compiled {y.ravel()[:6]}")
                return
        if T.MON.conflicts:
            cf = T.MON.conflicts[0]
            ctx.fail(dict(mech, what="prange-iteration-ownership-conflict", array=cf["array"]),
                     f"{entry}: element {cf['array']}{cf['index']} is written by one iteration and touched by another of the same prange ({cf})")
            return


def check_wrappers(ctx, c):
    """The Python wrappers dispatch to the kernel they name and hand over exactly the arguments (and thread count) they got."""
    from gstools import config
    import gstools.field.generator as G
    import gstools.krige.base as KB
    import gstools.variogram.variogram as V

    rng = np.random.default_rng([c["seed"], 77])
    ctx.cell("wrappers")
    seen = []

    def spy(name, real):
        def f(*a, **k):
            seen.append((name, a, k))
            return real(*a, **k)
        return f

    pairs = [(G, "_summate", "summate_c", "summate"), (G, "_summate_incompr", "summate_incompr_c", "summate_incompr"),
             (G, "_summate_fourier", "summate_fourier_c", "summate_fourier"), (KB, "_calc_field_krige", "calc_field_krige_c", "calc_field_krige"),
             (KB, "_calc_field_krige_and_variance", "calc_field_krige_and_variance_c", "calc_field_krige_and_variance"),
             (V, "_unstructured", "unstructured_c", "unstructured"), (V, "_directional", "directional_c", "directional"),
             (V, "_structured", "structured_c", "structured"), (V, "_ma_structured", "ma_structured_c", "ma_structured")]
    saved = {}
    for mod, _, nm, _ in pairs:
        saved[(mod, nm)] = getattr(mod, nm)
        setattr(mod, nm, spy(nm, saved[(mod, nm)]))
    try:
        # ---- wrapper level: every wrapper x thread count x drawn arguments ---------------------------------------------
        for mod, wname, kname, entry in pairs:
            for nt in (None, 1, 2, 3, 4, 8, 16):
                args, _ = _arrays(rng, entry)
                args = args[:-1]
                seen.clear()
                try:
                    with np.errstate(all="ignore"):
                        got = getattr(mod, wname)(*args, num_threads=nt)
                        want = saved[(mod, kname)](*args, nt)
                except ValueError:
                    continue
                ctx.event("wrapper_calls_spied")
                mech = {"what": "wrapper", "wrapper": wname}
                if len(seen) != 1 or seen[0][0] != kname:
                    ctx.fail(dict(mech, what="wrapper-dispatches-to-another-kernel"), f"{wname} called {[s_[0] for s_ in seen]}, expected [{kname}]")
                    return
                a, kw = seen[0][1], seen[0][2]
                if kw or len(a) != len(args) + 1:
                    ctx.fail(dict(mech, what="wrapper-changes-the-argument-list"), f"{wname}: kernel got {len(a)} positional / {sorted(kw)} keyword arguments for {len(args) + 1}")
                    return
                if not (a[-1] is nt or a[-1] == nt):
                    ctx.fail(dict(mech, what="wrapper-does-not-forward-num_threads"), f"{wname}(num_threads={nt}): kernel received {a[-1]!r}")
                    return
                for i, (x, y) in enumerate(zip(a[:-1], args)):
                    same = (x is y) or (isinstance(y, np.ndarray) and isinstance(x, np.ndarray) and x.shape == y.shape and np.array_equal(x, y, equal_nan=True)) \
                        or (not isinstance(y, np.ndarray) and x == y)
                    if not same:
                        ctx.fail(dict(mech, what="wrapper-alters-an-argument", position=i), f"{wname}: argument {i} reaches the kernel as {np.shape(x)} {str(x)[:80]}, given {np.shape(y)} {str(y)[:80]}")
                        return
                g = got if isinstance(got, tuple) else (got,)
                w = want if isinstance(want, tuple) else (want,)
                if len(g) != len(w) or any(not np.array_equal(np.asarray(x), np.asarray(y), equal_nan=True) for x, y in zip(g, w)):
                    ctx.fail(dict(mech, what="wrapper-result!=kernel-result"), f"{wname}: result differs from the direct kernel call")
                    return
        # ---- public API: which kernel is reached with which thread count (forwarding by generators / estimators) ---------
        forwarded = {}
        for nt in (None, 1, 3, 16):
            config.NUM_THREADS = nt
            seen.clear()
            x = rng.uniform(0, 8, size=(2, 9))
            m = gs.Gaussian(dim=2, len_scale=1.5, anis=0.3, angles=0.7)
            with warnings.catch_warnings():
                warnings.simplefilter("ignore")
                f = gs.SRF(m, seed=1, mode_no=8)(x)
                gs.SRF(m, seed=1, mode_no=8, generator="VectorField")(x)
                gs.SRF(m, seed=1, generator="Fourier", period=9.0, mode_no=4)(x)
                cp, cv = rng.uniform(0, 5, size=(2, 5)), rng.normal(size=5)
                k = gs.krige.Ordinary(m, cp, cv)
                k(x)
                k(x, return_var=False)
                est = "cressie" if nt in (1, 16) else "matheron"
                gs.vario_estimate(x, f, np.linspace(0, 3, 4), estimator=est)
                gs.vario_estimate(x, f, np.linspace(0, 3, 4), direction=[1.0, 0.0], estimator=est)
                gs.vario_estimate_axis(rng.normal(size=(6, 4)), estimator=est)
                gs.vario_estimate_axis(np.ma.array(rng.normal(size=(6, 4)), mask=rng.random((6, 4)) < 0.3), estimator=est)
            names = [s_[0] for s_ in seen]
            ctx.event("wrapper_calls_spied", len(seen))
            # the generators hand the kernels their own samples and the isometrized positions, nothing else
            xi_want = orot.isometrize(2, [0.7], [0.3], x)
            for nm, a, kw in seen[:3]:
                pos_arg = np.asarray(a[-2], dtype=float)
                if pos_arg.shape != xi_want.shape or not np.allclose(pos_arg, xi_want, rtol=1e-12, atol=1e-12):
                    ctx.fail({"what": "generator-hands-kernel-other-positions", "kernel": nm},
                             f"{nm}: positions reaching the kernel differ from the isometrized call positions by {common.maxabs(pos_arg - xi_want) if pos_arg.shape == xi_want.shape else pos_arg.shape}")
                    return
            want = ["summate_c", "summate_incompr_c", "summate_fourier_c", "calc_field_krige_and_variance_c", "calc_field_krige_c",
                    "unstructured_c", "directional_c", "structured_c", "ma_structured_c"]
            if names != want:
                ctx.fail({"what": "public-API-dispatches-to-another-kernel"}, f"kernels called: {names}, expected {want}")
                return
            # the estimator the user asked for reaches every variogram kernel
            for nm, a, kw in seen[5:]:
                flat = list(a) + list(kw.values())
                got_est = [v for v in flat if isinstance(v, str) and v in ("m", "c")]
                if not got_est or got_est[0] != est[0]:
                    ctx.fail({"what": "estimator-not-forwarded-to-kernel", "kernel": nm}, f"estimator={est!r}: kernel {nm} received {got_est or 'its default'}")
                    return
            for nm, a, kw in seen:
                got_nt = kw.get("num_threads", a[-1] if a else "missing")
                forwarded.setdefault(nm, []).append([nt, got_nt])
                # generators and estimators name config.NUM_THREADS at their call sites; the kriging class calls its wrapper with the
                # default (observation recorded in the evidence, not part of the property: results do not depend on the thread count)
                if not nm.startswith("calc_field") and not (got_nt is nt or got_nt == nt):
                    ctx.fail({"what": "config.NUM_THREADS-not-forwarded", "kernel": nm}, f"config.NUM_THREADS={nt}, kernel received {got_nt!r}")
                    return
                if nm.startswith("calc_field"):
                    mat, vecs, cond = a[0], a[1], a[2]
                    if not (mat.shape[0] == mat.shape[1] == vecs.shape[0] == cond.shape[0] == k.krige_size):
                        ctx.fail({"what": "kriging-kernel-gets-truncated-system", "kernel": nm}, f"shapes {mat.shape} {vecs.shape} {cond.shape}, system size {k.krige_size}")
                        return
        ctx.extra("num_threads_reaching_kernels_via_public_api", forwarded)
    finally:
        config.NUM_THREADS = None
        for (mod, nm), fn in saved.items():
            setattr(mod, nm, fn)


CHECKS = {"native": check_native, "freshness": check_freshness, "pyx": check_pyx, "wrappers": check_wrappers}
