"""C04 – the spectral representation is the Fourier pair of the covariance."""

import math
import warnings

import numpy as np
from scipy.integrate import quad

from gsverif import common
from gsverif.common import gs
from gsverif.oracles import cov as ocov
from gsverif.oracles import ft as oft

SHARDS = {"quick": 16, "thorough": 16}
TIMEOUT = {"quick": 1500, "thorough": 6000}
REQUIRED_EVENTS = ["weak_form_identities", "pointwise_transforms", "pdf_normalisations", "cdf_ppf_points"]
RULE = (
    "17 classes x dim 1-3 x length scale in {0.1, 1, 37} and random x rescale x shape parameters (default / interior / edges) x "
    "Gaussian test widths (weak form) and wave numbers from 0 to the tail (pointwise) x probabilities 1e-12..1-1e-12 for cdf/ppf"
)
ASSUMPTIONS = [
    "the transform is computed from the mpmath closed-form correlation (oracles/cov.py) by QUADPACK / mpmath quadrature (oracles/ft.py)",
    "the numerical default spectrum (Hankel transform) is approximate by design: tolerance 1e-2 of the density at k=0",
]
LEVEL_TEXT = (
    "Runtime oracle monitoring: the reported spectral density is compared with the Fourier transform of the independently "
    "transcribed correlation - pointwise (oscillatory quadrature) and in a non-oscillatory weak form with Gaussian test functions - "
    "and spectrum, radial pdf, its normalisation, cdf and ppf are checked against each other."
)
TECHNIQUE = "runtime oracle monitor (transform of the closed-form correlation; weak form + pointwise) + cdf/ppf identities"


def generate(tier, seed):
    rng = np.random.default_rng([seed, 4])
    n = {"quick": 1, "thorough": 8}[tier]
    cases = []
    for name in common.MODELS:
        for dim in common.valid_dims(name):
            modes = ["default", "edge"] + ["interior"] * n
            for mode in modes:
                d = common.draw_model(rng, name, dim, opt_mode=mode, aniso=False, nugget=False)
                d["len_scale"] = float(rng.choice([0.1, 1.0, 37.0])) if rng.random() < 0.6 else d["len_scale"]
                if rng.random() < 0.3:
                    d["rescale"] = round(float(rng.uniform(0.4, 2.5)), 3)
                d["nugget"] = float(rng.choice([0.0, 0.0, round(float(rng.uniform(0.1, 1.0)), 3)]))  # (spectrum = var * density whatever the nugget)
                if name in ("Stable", "TPLStable") and "opt" in d and "alpha" in d["opt"]:
                    d["opt"]["alpha"] = max(d["opt"]["alpha"], 0.5)
                cases.append(("pair", {"model": d, "cseed": int(rng.integers(1 << 30))}))
                cases.append(("distribution", {"model": d, "cseed": int(rng.integers(1 << 30))}))
                d2 = int(rng.choice([x for x in common.valid_dims(name) if x != dim] or [dim]))
                if d2 != dim and name not in ("SuperSpherical", "JBessel", "TPLSimple", "HyperSpherical"):
                    cases.append(("dim_change", {"model": d, "dim2": d2}))
    for rep in range(3 * n):
        cases.append(("isolation", {"name": str(rng.choice(["Stable", "Spherical", "Cubic", "Rational", "Gaussian", "TPLStable"])), "dim": int(rng.integers(1, 4)),
                                    "cseed": int(rng.integers(1 << 30))}))
    # targeted parameter regions: branch switches and parameter combinations that only matter together
    special = []
    for nu in (20.0, 20.0001, 25.0, 30.0):
        special.append(("Matern", {"nu": nu}, None))
    for name in ("TPLGaussian", "TPLExponential", "TPLStable"):
        for len_low, resc in ((0.5, 0.5), (3.0, 2.0), (0.2, 1.0)):
            o = {"len_low": len_low, "hurst": 0.3}
            if name == "TPLStable":
                o["alpha"] = 1.6
            special.append((name, o, resc))
    for nu in (6.0, 10.0, 50.0):
        special.append(("JBessel", {"nu": nu}, None))
    special.append(("Integral", {"nu": 50.0}, None))
    special.append(("Stable", {"alpha": 2.0}, 0.7))
    special.append(("Rational", {"alpha": 50.0}, None))
    for name, o, resc in special:
        for dim in (1, 2, 3):
            d = {"name": name, "dim": dim, "var": round(float(rng.uniform(0.5, 2)), 3), "len_scale": round(float(rng.uniform(0.5, 3)), 3),
                 "nugget": 0.0, "opt": dict(o)}
            if resc is not None:
                d["rescale"] = resc
            cases.append(("pair", {"model": d, "cseed": int(rng.integers(1 << 30))}))
            cases.append(("distribution", {"model": d, "cseed": int(rng.integers(1 << 30))}))
    return cases


def _build(d):
    kw = {}
    desc = {k: v for k, v in d.items() if k not in ("rescale", "hankel_kw")}
    if "hankel_kw" in d:
        kw["hankel_kw"] = d["hankel_kw"]
    if "rescale" in d:
        kw["rescale"] = d["rescale"]
    return common.build_model(desc, **kw)


def _skip_integrability(d):
    """Correlations that are not integrable in the given dimension have no (finite) spectral density at 0: outside the property."""
    name, dim, opt = d["name"], d["dim"], d.get("opt", {})
    if name == "Rational" and 2 * opt.get("alpha", 1.0) <= dim + 0.3:
        return "rational: correlation ~ r^(-2 alpha) not integrable in this dimension"
    if name == "JBessel" and opt.get("nu", dim / 2) - (dim / 2 - 1) < 0.02:
        return "jbessel: documented degenerate region nu -> d/2-1 (the package warns and tweaks the density)"
    return None


def check_pair(ctx, c):
    d = c["model"]
    name, dim = d["name"], d["dim"]
    why = _skip_integrability(d)
    if why:
        ctx.discard(why)
        return
    model = _build(d)
    analytic = name in common.ANALYTIC_SPECTRUM
    unit = oft.desc_unit(d)

    # the correlation whose transform is taken: the model's own correlation function (tied to the closed forms by C03) -
    # fast enough for quadrature; a handful of lags is cross-checked against the mpmath transcription right here
    def rho(r):
        with np.errstate(all="ignore"):
            return float(np.asarray(model.correlation(np.array([abs(r)])))[0])

    for r in (0.0, 0.37 * unit, 1.9 * unit):
        if not abs(rho(r) - float(ocov.correlation(d, r))) <= 1e-9 + ocov.evaluation_slack(d):
            ctx.fail({"what": "correlation!=closed-form", "model": name, "dim": dim}, f"r={r}: {rho(r)} vs {float(ocov.correlation(d, r))}")
            return
    oft.use_correlation(d, rho)
    ctx.cell(f"pair/{name}/dim{dim}/{'analytic' if analytic else 'numerical'}")
    mech = {"model": name, "dim": dim, "spectrum": "analytic" if analytic else "numerical"}
    opt = d.get("opt", {})
    if name == "Matern" and opt.get("nu", 1.0) > 20:
        mech["branch"] = "nu>20"
    with warnings.catch_warnings():
        warnings.simplefilter("ignore")
        with np.errstate(all="ignore"):
            s0 = float(np.asarray(model.spectral_density(np.array([0.0])))[0])

            def dens(k):
                return float(np.asarray(model.spectral_density(np.array([abs(k)])))[0])

            # ---- spectrum = var * density -------------------------------------------------------------
            ks = np.array([0.0, 0.3, 1.0, 2.7, 9.0]) / unit
            sp, de = np.asarray(model.spectrum(ks)), np.asarray(model.spectral_density(ks))
            if not np.allclose(sp, d["var"] * de, rtol=1e-14, atol=0):
                ctx.fail(dict(mech, what="spectrum!=var*density"), f"{sp} vs {d['var'] * de}")
                return
            # ---- weak form -----------------------------------------------------------------------------
            jb_slow = name == "JBessel"
            for a_rel in (0.1, 0.4, 1.0, 3.0):
                a = a_rel * unit
                lhs = oft.weak_lhs(d, a)
                rhs = oft.weak_rhs(dim, dens, a, unit)
                ctx.event("weak_form_identities")
                scale = max(abs(lhs), (2 * math.pi * a * a) ** (dim / 2) * 1e-6 / max(unit, 1e-300) ** 0)
                err = abs(lhs - rhs) / max(abs(lhs), 1e-300)
                ctx.resolve(f"weak_rel_{'analytic' if analytic else 'numerical'}", err)
                tol = 1e-7 if analytic else 1e-1  # the numerical default spectrum is approximate by design
                if name == "JBessel" and opt.get("nu", 1.0) - dim / 2.0 < 0:
                    # density ~ (1 - (k l)^2)^(nu - d/2) with an integrable singularity at the edge of its support: the oracle's
                    # quadrature of the right-hand side is good to ~1e-5 there
                    tol = 1e-4
                if not err <= tol:
                    m2 = dict(mech, what="density!=transform(weak-form)", width=a_rel)
                    if not analytic:
                        # is it the resolution of the default Hankel quadrature? a refined transform of the same model must then
                        # move the identity substantially towards the truth
                        fine = _build(dict(d, hankel_kw={"N": 5000, "h": 2e-5}))
                        rhs_f = oft.weak_rhs(dim, lambda k: float(np.asarray(fine.spectral_density(np.array([abs(k)])))[0]), a, unit)
                        if abs(lhs - rhs_f) < 0.5 * abs(lhs - rhs):
                            m2["mechanism"] = "numerical-spectrum/hankel-default-resolution"
                    ctx.fail(m2,
                             f"{name} {opt} dim {dim} len_scale {d['len_scale']} width {a_rel} l: int radfac*rho*g = {lhs!r}, "
                             f"(2 pi a^2)^(d/2) int radfac*S*g^ = {rhs!r} (rel {err:.2e})")
                    return
            # ---- pointwise ------------------------------------------------------------------------------
            if name in ("JBessel",):
                kl = []  # the slowly decaying oscillating correlation defeats oscillatory quadrature; the weak form decides
            else:
                kl = [0.0, 0.5, 1.5, 4.0]
            if (name in ("Stable", "TPLStable") and opt.get("alpha", 1.5) < 0.8) or name == "JBessel" and dim == 2:
                kl = kl[:1] if name != "JBessel" else []
            for kr in kl:
                if dim == 2 and kr > 1.5:
                    continue  # many oscillations over the support of the correlation: the weak form covers the tail in 2-D
                k = kr / unit
                try:
                    want = oft.density(d, k)
                except Exception:
                    ctx.event("pointwise_quadrature_failed")
                    continue
                got = dens(k)
                ctx.event("pointwise_transforms")
                tol = (1e-7 * abs(want) + 1e-11 * abs(s0)) if analytic else 1e-2 * abs(s0)
                if name in common.TPL:
                    tol = max(tol, 1e-5 * abs(s0))  # power-law cusp of the correlation at the origin limits the quadrature
                if name == "JBessel":
                    tol = max(tol, 1e-5 * abs(s0))  # QAWF on an r^-(nu+1/2) tail
                err = abs(got - want)
                ctx.resolve(f"pointwise_rel_s0_{'analytic' if analytic else 'numerical'}", err / max(abs(s0), 1e-300))
                if not err <= tol:
                    m2 = dict(mech, what="density!=transform(pointwise)")
                    if not analytic:
                        fine = _build(dict(d, hankel_kw={"N": 5000, "h": 2e-5}))
                        got_f = float(np.asarray(fine.spectral_density(np.array([abs(k)])))[0])
                        if abs(got_f - want) < 0.5 * err:
                            m2["mechanism"] = "numerical-spectrum/hankel-default-resolution"
                    ctx.fail(m2,
                             f"{name} {opt} dim {dim} len_scale {d['len_scale']} k*l={kr}: reported {got!r}, transform of the correlation {want!r}")
                    return


def check_isolation(ctx, c):
    """The spectral settings of one model are its own: creating or changing another model (transform resolution, dimension,
    parameters) leaves the spectrum of an existing model and of later default models untouched."""
    rng = np.random.default_rng(c["cseed"])
    name, dim = c["name"], c["dim"]
    if dim > common.max_valid_dim(name):
        dim = common.max_valid_dim(name)
    cls = getattr(gs, name)
    ks = np.array([0.0, 0.3, 1.0, 2.5])
    with warnings.catch_warnings():
        warnings.simplefilter("ignore")
        with np.errstate(all="ignore"):
            a = cls(dim=dim, len_scale=1.3)
            kw0 = dict(a.hankel_kw)
            sa = np.asarray(a.spectral_density(ks)).copy()
            # another object with its own transform settings / dimension / parameters, used in between
            other = getattr(gs, str(rng.choice(["Stable", "Spherical", "Rational"])))(dim=int(rng.integers(1, 4)), hankel_kw={"N": int(rng.choice([20, 50])), "h": 0.01})
            other.spectral_density(ks)
            other.hankel_kw = {"N": 33}
            other.dim = int(rng.integers(1, 4))
            b = cls(dim=dim, len_scale=1.3)
            sb = np.asarray(b.spectral_density(ks))
            sa2 = np.asarray(a.spectral_density(ks))
    ctx.event("isolation_comparisons", 3)
    ctx.cell(f"isolation/{name}/dim{dim}")
    mech = {"what": "model-state-shared-between-objects", "model": name}
    if dict(a.hankel_kw) != kw0 or dict(b.hankel_kw) != kw0:
        ctx.fail(dict(mech, part="hankel_kw"), f"hankel_kw of an untouched / a new default model changed: {kw0} -> {dict(a.hankel_kw)} / {dict(b.hankel_kw)} after another model was given its own settings")
        return
    if not (np.array_equal(sa, sa2, equal_nan=True) and np.array_equal(sa, sb, equal_nan=True)):
        ctx.fail(dict(mech, part="spectral_density"), f"spectral density of {name} depends on other models created in between: {sa} / {sa2} / {sb}")


def check_distribution(ctx, c):
    d = c["model"]
    name, dim = d["name"], d["dim"]
    why = _skip_integrability(d)
    if why:
        ctx.discard(why)
        return
    model = _build(d)
    analytic = name in common.ANALYTIC_SPECTRUM
    unit = oft.desc_unit(d)
    rng = np.random.default_rng(c["cseed"])
    ctx.cell(f"dist/{name}/dim{dim}")
    mech = {"model": name, "dim": dim, "spectrum": "analytic" if analytic else "numerical"}
    with warnings.catch_warnings():
        warnings.simplefilter("ignore")
        with np.errstate(all="ignore"):
            ks = np.concatenate([[0.0, 1e-9 / unit], np.exp(rng.uniform(math.log(1e-3), math.log(30), size=8)) / unit])
            pdf = np.asarray(model.spectral_rad_pdf(ks))
            de = np.asarray(model.spectral_density(ks))
            want = np.array([oft.radfac(dim, k) for k in ks]) * np.abs(de)
            if dim > 1:
                want[np.isclose(ks, 0)] = 0.0
            if not np.allclose(pdf, np.maximum(np.nan_to_num(want, nan=0.0, posinf=0.0), 0.0), rtol=1e-13, atol=0):
                ctx.fail(dict(mech, what="rad_pdf!=surface-factor*density"), f"{pdf} vs {want}")
                return
            lp = np.asarray(model.ln_spectral_rad_pdf(ks[2:]))
            if not np.allclose(lp[pdf[2:] > 0], np.log(pdf[2:][pdf[2:] > 0]), rtol=1e-13, atol=1e-13):
                ctx.fail(dict(mech, what="ln_rad_pdf"), "log pdf mismatch")
                return
            # scalar input
            sv = float(np.asarray(model.spectral_rad_pdf(float(ks[4]))))
            if not abs(sv - pdf[4]) <= (1e-12 * abs(pdf[4]) if analytic else 1e-6 * float(np.max(np.abs(pdf)))) + 1e-300:
                ctx.fail(dict(mech, what="rad_pdf(scalar)"), f"{sv} vs {pdf[4]}")
                return
            # normalisation
            upper = 200.0 / unit if analytic else 60.0 / unit
            if name == "JBessel":
                upper = 1.0 / unit
            pts = sorted(set([0.1 / unit, 1.0 / unit, 5.0 / unit]))
            pts = [p for p in pts if p < upper]
            # only spectra without an algebraic tail can be integrated to one on a finite range; for the others the narrow
            # weak-form width (a = 0.1 l) ties the tail mass to rho(0) = 1
            tail_ok = name in ("Gaussian", "JBessel") or (name == "Matern" and d.get("opt", {}).get("nu", 1.0) > 20)
            total = quad(lambda k: float(np.asarray(model.spectral_rad_pdf(np.array([k])))[0]), 0, upper, points=pts, limit=800, epsabs=1e-12, epsrel=1e-10)[0]
            ctx.event("pdf_normalisations")
            # algebraic tails (k^-2 in 1-D for the exponential family, k^-(d+1)/2.. for compact models) are accounted for by the cdf test;
            # here: models with rapidly decaying spectra must integrate to one
            if tail_ok:
                tol = 1e-6 if analytic else 2e-2
                ctx.resolve("normalisation_err", abs(total - 1.0))
                if not abs(total - 1.0) <= tol:
                    ctx.fail(dict(mech, what="rad_pdf-not-normalised"), f"{name} {d.get('opt')} dim {dim}: integral of the radial pdf = {total!r}")
                    return
            elif not total <= 1.0 + (1e-6 if analytic else 3e-2):
                m2 = dict(mech, what="rad_pdf-mass>1")
                if not analytic:
                    # |noise| of the numerical transform in the tail is counted as probability mass: a refined transform reduces it
                    fine = _build(dict(d, hankel_kw={"N": 5000, "h": 2e-5}))
                    total_f = quad(lambda k: float(np.asarray(fine.spectral_rad_pdf(np.array([k])))[0]), 0, upper, points=pts, limit=800, epsabs=1e-12, epsrel=1e-10)[0]
                    # (a mass that moves by more than 20 % of its excess with the resolution of the transform is an artefact of the
                    # transform: rough models such as TPLStable(alpha ~ 0.5, len_low > 0) do not converge even at N = 20000)
                    if abs(total_f - 1.0) < 0.5 * abs(total - 1.0) or total_f <= 1.0 + 3e-2 or abs(total_f - total) > 0.2 * abs(total - 1.0):
                        m2["mechanism"] = "numerical-spectrum/hankel-default-resolution"
                ctx.fail(m2, f"{name} {d.get('opt')} dim {dim}: partial integral {total!r} > 1")
                return
            # ---- cdf / ppf -------------------------------------------------------------------------------
            if model.has_cdf:
                kk = np.sort(np.concatenate([[0.0], np.exp(rng.uniform(math.log(1e-3), math.log(50), size=6)) / unit]))
                cdf = np.asarray(model.spectral_rad_cdf(kk))
                if not (abs(cdf[0]) <= 1e-15 and np.all(np.diff(cdf) >= -1e-15) and cdf[-1] <= 1 + 1e-12):
                    ctx.fail(dict(mech, what="cdf-not-a-distribution-function"), f"cdf {cdf}")
                    return
                for lo, hi, c0, c1 in zip(kk[:-1], kk[1:], cdf[:-1], cdf[1:]):
                    part = quad(lambda k: float(np.asarray(model.spectral_rad_pdf(np.array([k])))[0]), lo, hi, limit=400, epsabs=1e-13, epsrel=1e-10)[0]
                    ctx.event("cdf_ppf_points")
                    if not abs((c1 - c0) - part) <= 1e-8 * max(part, 1e-6) + 1e-12:
                        ctx.fail(dict(mech, what="cdf!=integral-of-pdf"), f"{name} dim {dim}: cdf({hi})-cdf({lo}) = {c1 - c0!r}, integral of the pdf {part!r}")
                        return
                far = float(np.asarray(model.spectral_rad_cdf(np.array([1e12 / unit])))[0])
                if not abs(far - 1.0) <= 1e-9:
                    ctx.fail(dict(mech, what="cdf(inf)!=1"), f"cdf at 1e12/l = {far!r}")
                    return
            if model.has_ppf:
                u = np.array([1e-12, 1e-6, 0.01, 0.3, 0.5, 0.9, 0.999, 1 - 1e-9, 1 - 1e-12])
                r = np.asarray(model.spectral_rad_ppf(u))
                if not (np.all(np.diff(r) > 0) and np.all(r >= 0)):
                    ctx.fail(dict(mech, what="ppf-not-increasing"), f"ppf {r}")
                    return
                back = np.asarray(model.spectral_rad_cdf(r))
                ctx.event("cdf_ppf_points", u.size)
                # conditioning: du = pdf * dr
                if not np.all(np.abs(back - u) <= 1e-9 * np.maximum(u, 1e-3) + 1e-13):
                    i = int(np.argmax(np.abs(back - u)))
                    ctx.fail(dict(mech, what="cdf(ppf(u))!=u"), f"{name} dim {dim}: u={u[i]!r} -> r={r[i]!r} -> {back[i]!r}")
                    return
                rr = np.exp(rng.uniform(math.log(1e-2), math.log(20), size=6)) / unit
                uu = np.asarray(model.spectral_rad_cdf(rr))
                r2 = np.asarray(model.spectral_rad_ppf(uu))
                ok = (uu > 1e-12) & (uu < 1 - 1e-9)
                amp = 1.0 / np.maximum(np.asarray(model.spectral_rad_pdf(rr)) * rr, 1e-300)
                if not np.all(np.abs(r2[ok] - rr[ok]) <= (1e-9 + 1e-14 * amp[ok]) * rr[ok]):
                    i = int(np.argmax(np.abs(r2 - rr) * ok))
                    ctx.fail(dict(mech, what="ppf(cdf(r))!=r"), f"{name} dim {dim}: r={rr[i]!r} -> u={uu[i]!r} -> {r2[i]!r}")
                    return
                pdf_f, cdf_f, ppf_f = model.dist_func
                if cdf_f is None or ppf_f is None:
                    ctx.fail(dict(mech, what="dist_func-incomplete"), "has_ppf but dist_func lacks cdf/ppf")


def check_dim_change(ctx, c):
    """After `model.dim = d2` the spectral functions are those of a model built in d2 (the transform object follows the dimension)."""
    d = c["model"]
    name = d["name"]
    d1, d2 = d["dim"], c["dim2"]
    model = _build(d)
    with warnings.catch_warnings():
        warnings.simplefilter("ignore")
        with np.errstate(all="ignore"):
            ks = np.array([0.0, 0.3, 1.0, 3.0]) / oft.desc_unit(d)
            model.spectral_density(ks)  # use the model once in its first dimension
            try:
                model.dim = d2
            except ValueError:
                ctx.discard("dimension change rejected")
                return
            kw = {k: v for k, v in d.items() if k not in ("name", "opt", "dim", "rescale")}
            kw.update({o: float(getattr(model, o)) for o in model.opt_arg})
            if "rescale" in d:
                kw["rescale"] = d["rescale"]
            try:
                fresh = getattr(gs, name)(dim=d2, **kw)
            except ValueError:
                ctx.discard("state not constructible in the new dimension (C14 matter)")
                return
            a = [np.asarray(f(ks)) for f in (model.spectral_density, model.spectrum, model.spectral_rad_pdf)]
            b = [np.asarray(f(ks)) for f in (fresh.spectral_density, fresh.spectrum, fresh.spectral_rad_pdf)]
    ctx.event("weak_form_identities")
    ctx.cell(f"dim_change/{name}/{d1}->{d2}")
    for nm, x, y in zip(("spectral_density", "spectrum", "spectral_rad_pdf"), a, b):
        if not np.allclose(x, y, rtol=1e-12, atol=0, equal_nan=True):
            ctx.fail({"what": "spectrum-after-dim-change!=fresh-model", "model": name, "func": nm,
                      "spectrum": "analytic" if name in common.ANALYTIC_SPECTRUM else "numerical"},
                     f"{name}: dim {d1} -> {d2}: {nm} = {x} but a model built in dim {d2} gives {y}")
            return
    if model.has_cdf != fresh.has_cdf or model.has_ppf != fresh.has_ppf:
        ctx.fail({"what": "has_cdf/has_ppf-after-dim-change", "model": name}, "distribution flags differ from a fresh model")


CHECKS = {
    "isolation": check_isolation,"pair": check_pair, "distribution": check_distribution, "dim_change": check_dim_change}
