"""Bootstrap of the gstools import (GSVERIF_SRC first on sys.path) and the shared
model catalogue / case-description helpers.  Case descriptions are JSON-able
dicts; `build_model(desc)` turns one into a live CovModel of the tree under test.
"""

import os
import sys
import warnings

SRC = os.environ.get("GSVERIF_SRC", "/repo/src")
if SRC not in sys.path[:1]:
    sys.path.insert(0, SRC)

import math

import numpy as np  # noqa: E402

warnings.filterwarnings("ignore", category=DeprecationWarning)

import gstools as gs  # noqa: E402
from gstools.covmodel.tools import AttributeWarning  # noqa: E402

assert os.path.realpath(gs.__file__).startswith(os.path.realpath(SRC)), (
    f"gstools imported from {gs.__file__}, expected under {SRC}"
)

MODELS = [
    "Gaussian", "Exponential", "Matern", "Integral", "Stable", "Rational", "Cubic",
    "Linear", "Circular", "Spherical", "HyperSpherical", "SuperSpherical", "JBessel",
    "TPLGaussian", "TPLExponential", "TPLStable", "TPLSimple",
]
# models whose spectral_density is an analytic override (others: numerical Hankel default)
ANALYTIC_SPECTRUM = {
    "Gaussian", "Exponential", "Matern", "Integral", "HyperSpherical", "JBessel",
    "TPLGaussian", "TPLExponential",
}
COMPACT = {"Cubic", "Linear", "Circular", "Spherical", "HyperSpherical", "SuperSpherical", "TPLSimple"}
TPL = {"TPLGaussian", "TPLExponential", "TPLStable"}


def max_valid_dim(name):
    """Largest dimension in which the oracle regards the model as a valid covariance
    (mathematical fact, independent of the code's check_dim)."""
    return {"Linear": 1, "Circular": 2, "Spherical": 3, "Cubic": 3}.get(name, 99)


def opt_bounds(name, dim):
    """Documented optional-argument bounds (lower, upper, type) for a model in `dim`."""
    inf = float("inf")
    return {
        "Stable": {"alpha": (0.0, 2.0, "oc")},
        "Matern": {"nu": (0.2, 30.0, "cc")},
        "Integral": {"nu": (0.0, 50.0, "oc")},
        "Rational": {"alpha": (0.5, 50.0, "cc")},
        "SuperSpherical": {"nu": ((dim - 1) / 2, 50.0, "cc")},
        "JBessel": {"nu": (dim / 2 - 1, 50.0, "cc")},
        "TPLGaussian": {"hurst": (0.1, 1.0, "oo"), "len_low": (0.0, inf, "co")},
        "TPLExponential": {"hurst": (0.1, 1.0, "oo"), "len_low": (0.0, inf, "co")},
        "TPLStable": {"hurst": (0.1, 1.0, "oo"), "alpha": (0.0, 2.0, "oc"), "len_low": (0.0, inf, "co")},
        "TPLSimple": {"nu": ((dim + 1) / 2, 50.0, "cc")},
    }.get(name, {})


SPECIAL_VALUES = {"nu": [0.5, 1.0, 1.5, 2.0, 2.5, 3.0, 3.5, 4.5, 5.0, 10.0], "alpha": [0.5, 1.0, 1.5, 2.0, 3.0, 5.0], "hurst": [0.25, 0.5, 0.75]}


def draw_opt(rng, name, dim, mode="interior"):
    """Draw optional arguments. mode: default | interior | edge (at/near bounds) | wide."""
    out = {}
    if mode == "default":
        return out
    for arg, (lo, hi, typ) in opt_bounds(name, dim).items():
        if arg == "len_low":
            if mode == "edge":
                out[arg] = float(rng.choice([0.0, 1e-3, 0.5, 3.0]))
            else:
                out[arg] = float(rng.choice([0.0, 0.0, round(float(rng.uniform(0.05, 2.0)), 3)]))
            continue
        hi_eff = hi
        lo_eff = lo
        # keep away from numerically degenerate-but-admissible corners unless edge mode
        if name in ("Stable", "TPLStable") and arg == "alpha":
            lo_eff = 0.5
        if name == "JBessel":
            lo_eff = lo + 0.05
            hi_eff = min(hi, lo + 6.0)
        if name in ("SuperSpherical", "TPLSimple"):
            hi_eff = min(hi, lo + 6.0)
        if name in ("Matern",):
            hi_eff = 19.0
        if name in ("Integral", "Rational"):
            hi_eff = min(hi, 12.0)
            lo_eff = max(lo, 0.55 if name == "Rational" else 0.1)
        if name in TPL and arg == "hurst":
            hi_eff = 0.95
            lo_eff = 0.12
        if mode == "edge":
            cands = []
            if typ[0] == "c":
                cands.append(lo)
            cands.append(lo_eff + 1e-3 * max(1.0, abs(lo_eff)))
            if typ[1] == "c":
                cands.append(hi)
            cands.append(hi_eff)
            out[arg] = float(rng.choice(cands))
        else:
            out[arg] = round(float(rng.uniform(lo_eff, hi_eff)), 4)
            # every fourth draw is a "round" value (integers, half-integers, simple fractions): closed-form shortcuts and special
            # cases in the code live exactly there and a continuous draw never hits them
            special = [v for v in SPECIAL_VALUES.get(arg, []) if lo_eff <= v <= hi_eff and (v > lo or typ[0] == "c") and (v < hi or typ[1] == "c")]
            if special and rng.random() < 0.25:
                out[arg] = float(rng.choice(special))
                if rng.random() < 0.3:
                    # a hair beside the round value (inside tolerant comparisons such as isclose, outside exact ones)
                    near = out[arg] * (1.0 + float(rng.choice([-1.0, 1.0])) * 2e-6)
                    if lo_eff <= near <= hi_eff and (near > lo) and (near < hi):
                        out[arg] = near
    if name == "TPLStable" and "hurst" in out and "alpha" in out:
        # documented: 0 < H < alpha/2
        out["hurst"] = min(out["hurst"], round(0.45 * out["alpha"], 4))
        out["hurst"] = max(out["hurst"], 0.101)
        if out["hurst"] >= out["alpha"] / 2:
            out["alpha"] = round(min(2.0, 2 * out["hurst"] + 0.3), 4)
    if name == "TPLExponential" and "hurst" in out:
        out["hurst"] = min(out["hurst"], 0.45)  # documented 0 < H < 1/2
    return out


def n_angles(dim):
    return dim * (dim - 1) // 2


def draw_model(rng, name, dim, opt_mode="interior", aniso=True, nugget=True, var=None, len_scale=None):
    """A JSON-able model description."""
    desc = {"name": name, "dim": int(dim)}
    desc["var"] = float(var) if var is not None else round(float(rng.uniform(0.3, 3.0)), 4)
    desc["len_scale"] = float(len_scale) if len_scale is not None else round(float(np.exp(rng.uniform(np.log(0.3), np.log(8.0)))), 4)
    desc["nugget"] = round(float(rng.uniform(0.05, 0.8)), 4) if (nugget and rng.random() < 0.5) else 0.0
    if aniso and dim > 1:
        desc["anis"] = [round(float(np.exp(rng.uniform(np.log(0.25), np.log(4.0)))), 4) for _ in range(dim - 1)]
        desc["angles"] = [round(float(rng.uniform(-np.pi, np.pi)), 4) for _ in range(n_angles(dim))]
        # geometry classes in which shortcuts of an implementation live: stretched but not rotated, rotated with all ratios 1,
        # ratios within the isclose tolerance of 1, right angles
        g = rng.random()
        if g < 0.15:
            desc["angles"] = [0.0] * n_angles(dim)
        elif g < 0.27:
            desc["anis"] = [1.0] * (dim - 1)
        elif g < 0.33:
            desc["anis"] = [round(1.0 + float(rng.choice([-1.0, 1.0])) * float(rng.uniform(2e-6, 8e-6)), 9) for _ in range(dim - 1)]
        elif g < 0.38:
            desc["angles"] = [float(rng.choice([np.pi / 2, -np.pi / 2, np.pi, 1e-7, 0.0])) for _ in range(n_angles(dim))]
    opt = draw_opt(rng, name, dim, opt_mode)
    if opt:
        desc["opt"] = opt
    return desc


def build_model(desc, **override):
    """Instantiate the model of the tree under test from a description."""
    kw = {k: v for k, v in desc.items() if k not in ("name", "opt")}
    kw.update(desc.get("opt", {}))
    kw.update(override)
    cls = getattr(gs, desc["name"])
    with warnings.catch_warnings():
        warnings.simplefilter("ignore", AttributeWarning)
        return cls(**kw)


def dim_warns(name, dim, **kw):
    """Does construction in `dim` raise the invalid-dimension AttributeWarning?"""
    cls = getattr(gs, name)
    with warnings.catch_warnings(record=True) as rec:
        warnings.simplefilter("always")
        cls(dim=dim, **kw)
    return any("not appropriate" in str(w.message) for w in rec)


def valid_dims(name, dims=(1, 2, 3)):
    return [d for d in dims if d <= max_valid_dim(name)]


def draw_points(rng, dim, n, scale=1.0, layout="random"):
    """(dim, n) point array; layouts: random | cluster | lattice | collinear."""
    if layout == "lattice":
        m = max(2, int(round(n ** (1.0 / dim))))
        axes = [np.arange(m) * scale * 0.5 for _ in range(dim)]
        pts = np.array(np.meshgrid(*axes, indexing="ij")).reshape(dim, -1)
        return pts[:, :n].astype(float)
    if layout == "cluster":
        k = max(1, n // 4)
        centers = rng.uniform(-3, 3, size=(dim, k)) * scale
        idx = rng.integers(0, k, size=n)
        return centers[:, idx] + rng.normal(0, 0.15 * scale, size=(dim, n))
    if layout == "collinear":
        t = np.sort(rng.uniform(-3, 3, size=n)) * scale
        d = rng.normal(size=(dim, 1))
        d /= np.linalg.norm(d)
        return d * t[None, :]
    return rng.uniform(-3, 3, size=(dim, n)) * scale


def relerr(a, b, floor=0.0):
    a = np.asarray(a, dtype=float)
    b = np.asarray(b, dtype=float)
    den = np.maximum(np.abs(b), floor) if floor else np.abs(b)
    with np.errstate(divide="ignore", invalid="ignore"):
        r = np.abs(a - b) / den
    return r


def maxabs(x):
    """max |x|; a NaN anywhere gives inf, so that `maxabs(a - b) > tol` can never pass silently on a non-finite result
    (callers for which NaN on both sides is legitimate compare with NaN-aware equality first)."""
    x = np.asarray(x, dtype=float)
    if not x.size:
        return 0.0
    m = float(np.max(np.abs(x)))
    return math.inf if m != m else m
