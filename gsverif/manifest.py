"""Regenerates MANIFEST.json from the metadata of the property modules that exist."""

import importlib
import json
import os
import sys

ROOT = os.path.dirname(os.path.dirname(os.path.abspath(__file__)))
sys.path.insert(0, ROOT)

NOT_BUILT_REASON = "check not built yet in this session (runtime-monitoring design in DESIGN.md section 5); not claimed until its driver exists"


def main():
    props = [json.loads(l) for l in open(os.path.join(ROOT, "properties.jsonl"))]
    checks, na = [], []
    for p in props:
        pid = p["id"]
        path = os.path.join(ROOT, "gsverif", "props", pid.lower() + ".py")
        meta = {}
        if os.path.exists(path):
            src = open(path).read()
            ns = {}
            # metadata only: evaluate simple top-level string assignments without importing gstools
            import ast

            tree = ast.parse(src)
            for node in tree.body:
                if isinstance(node, ast.Assign) and len(node.targets) == 1 and isinstance(node.targets[0], ast.Name):
                    name = node.targets[0].id
                    if name in ("LEVEL_TEXT", "LEVEL_NOTE", "TECHNIQUE", "ASSUMPTIONS", "NOT_APPLICABLE"):
                        try:
                            meta[name] = ast.literal_eval(node.value)
                        except Exception:
                            pass
        if not meta or "NOT_APPLICABLE" in meta:
            na.append({"property_id": pid, "reason": meta.get("NOT_APPLICABLE", NOT_BUILT_REASON)})
            continue
        checks.append({
            "property_id": pid,
            "quick_cmd": f"./check {pid} quick",
            "thorough_cmd": f"./check {pid} thorough",
            "evidence_file": f"/verif/evidence/{pid}.json",
            "replay_cmd_template": "./check --replay {path}",
            "engine": "gsverif",
            "level_claimed": {
                "category": "exploration",
                "text": meta.get("LEVEL_TEXT", ""),
                "design_ref": f"DESIGN.md section 5, {pid}",
            },
            "level_note": meta.get("LEVEL_NOTE", "Trusted base: " + "; ".join(meta.get("ASSUMPTIONS", []))),
            "technique": meta.get("TECHNIQUE", "runtime oracle monitoring"),
        })
    man = {
        "version": 1,
        "setup_cmd": "./check --setup",
        "hooks": {
            "guard": "GSTOOLS_VERIF",
            "enable": "no source hooks: all monitors attach from outside (wrappers, sys.modules pre-seeding of separately "
                      "compiled sanitizer/OpenMP kernels, icontract invariants); ./check exports GSTOOLS_VERIF=1 for the interface only",
            "baseline_off_cmd": "cd /repo && /venv/bin/python -m pytest -q -p no:cacheprovider --timeout=900 -n 8",
            "source_commits": [],
            "add_only": True,
        },
        "engines": [{
            "name": "gsverif",
            "path": "/verif/gsverif",
            "serves_properties": [c["property_id"] for c in checks],
            "kind_free_text": "runtime monitoring: oracle monitors, history/fresh-object comparators, array guards, "
                              "contracts, sanitizer + OpenMP builds of the generated kernels, .pyx interpretation",
        }],
        "checks": checks,
        "notes": "exit 0 held-on-observed / 1 VIOLATION / 2 INCONCLUSIVE; VERIF_SEED and VERIF_TIER honoured; "
                 "known findings in known_findings.json (mechanism-keyed).",
        "not_applicable": na,
    }
    with open(os.path.join(ROOT, "MANIFEST.json"), "w") as fh:
        json.dump(man, fh, indent=1)
    try:
        import jsonschema

        jsonschema.validate(man, json.load(open(os.path.join(ROOT, "gsverif", "schemas", "MANIFEST.schema.json"))))
        print("MANIFEST.json valid;", len(checks), "checks,", len(na), "not_applicable")
    except ImportError:
        print("MANIFEST.json written (jsonschema unavailable)")


if __name__ == "__main__":
    main()
