"""Shared construction of kriging cases (C05, C06, C07): the gstools object and the O-KRIGE oracle side by side."""

import itertools
import math
import warnings

import numpy as np

from gsverif import common
from gsverif.common import gs
from gsverif.oracles import krige as okrige
from gsverif.oracles import norm as onorm
from gsverif.oracles import rot as orot

VARIANTS = ["Simple", "Ordinary", "Universal", "ExtDrift", "Detrended", "Generic"]
KRIGE_MODELS = ["Gaussian", "Exponential", "Matern", "Integral", "Stable", "Rational", "Cubic", "Linear", "Circular", "Spherical",
                "HyperSpherical", "SuperSpherical", "JBessel", "TPLGaussian", "TPLExponential", "TPLStable", "TPLSimple"]


def draw_case(rng, variant=None, dim=None, zero_error=False, allow_latlon=True):
    """A JSON-able kriging case description."""
    variant = variant or str(rng.choice(VARIANTS))
    geo = str(rng.choice(["plain", "plain", "plain", "latlon", "temporal", "latlon_temporal"])) if allow_latlon else "plain"
    if geo.startswith("latlon"):
        sdim = 2
        dim_model = 3 + int(geo.endswith("temporal"))
    else:
        sdim = int(dim or rng.integers(1, 4))
        dim_model = sdim + int(geo == "temporal")
    names = [m for m in KRIGE_MODELS if dim_model <= common.max_valid_dim(m)]
    name = str(rng.choice(names))
    md = common.draw_model(rng, name, dim_model, "interior", aniso=not geo.startswith("latlon"), nugget=False)
    md["var"] = round(float(rng.uniform(0.5, 2.5)), 3)
    if geo.startswith("latlon"):
        md["geo_scale"] = float(rng.choice([1.0, 6371.0, 57.29577951308232]))
        md["len_scale"] = round(float(rng.uniform(0.15, 0.8)) * md["geo_scale"], 4)
        if geo.endswith("temporal"):
            md["anis"] = [round(float(np.exp(rng.uniform(-1, 1))), 3)]
    elif geo == "temporal" and "angles" in md:
        pass
    if name == "JBessel" and "opt" in md:
        md["opt"]["nu"] = round(max(md["opt"]["nu"], dim_model / 2 - 1 + 0.3), 4)
    nug = 0.0 if (zero_error and rng.random() < 0.6) else float(rng.choice([0.0, round(float(rng.uniform(0.05, 0.4)), 3)]))
    md["nugget"] = nug
    c = {"variant": variant, "geo": geo, "sdim": sdim, "model": md, "n": int(rng.choice([1, 2, 5, 12, 25])) if variant in ("Simple",) else int(rng.choice([3, 5, 12, 25])),
         "layout": str(rng.choice(["random", "cluster", "collinear", "lattice"])), "cseed": int(rng.integers(1 << 30)),
         "exact": bool(nug > 0 and (zero_error or rng.random() < 0.3)),
         "pseudo_inv": bool(rng.random() < 0.7), "pinv": str(rng.choice(["pinv", "pinvh", "callable"])),
         "mean": "none", "trend": "none", "norm": "Normalizer", "norm_p": {}, "cond_err": "nugget"}
    if geo != "plain" and c["layout"] in ("collinear", "lattice"):
        c["layout"] = "random"
    if sdim == 1 and c["layout"] == "collinear":
        c["layout"] = "random"
    if not c["exact"] and not zero_error and rng.random() < 0.3:
        c["cond_err"] = str(rng.choice(["scalar", "vector"]))
    if variant == "Simple":
        c["mean"] = str(rng.choice(["const", "callable", "zero"]))
    if variant in ("Generic",):
        c["mean"] = str(rng.choice(["none", "const", "callable"]))
        c["unbiased"] = bool(rng.random() < 0.5)
        c["drift"] = str(rng.choice(["none", "linear", "custom"])) if geo == "plain" else "none"
        c["ext_drift"] = int(rng.choice([0, 0, 1, 2]))
    if variant == "Universal":
        c["drift"] = str(rng.choice(["linear", "quadratic", "custom", "int1"])) if geo == "plain" else "custom_latlon"
    if variant == "ExtDrift":
        c["ext_drift"] = int(rng.choice([1, 2]))
    if variant == "Detrended":
        c["trend"] = "callable"
    elif rng.random() < 0.3:
        c["trend"] = str(rng.choice(["const", "callable"]))
    if rng.random() < 0.3 and variant != "Detrended":
        c["norm"] = str(rng.choice(["LogNormal", "BoxCox", "YeoJohnson"]))
        c["norm_p"] = {} if c["norm"] == "LogNormal" else {"lmbda": float(rng.choice([0.0, 0.5, 1.5]))}
    # the unit of the variable is the user's: variances of 1e-10 (conductivities in m/s) or 1e6 are ordinary data
    # (simple kriging only: with unbiasedness rows of ones / drift values the system matrix mixes the variable's unit with pure
    # numbers, and its conditioning - hence the attainable accuracy - legitimately depends on the unit)
    if c["norm"] == "Normalizer" and variant == "Simple" and rng.random() < 0.5:
        us = float(rng.choice([1e-10, 1e-10, 1e-12, 1e-5, 1e6]))
        c["unit_scale"] = us
        md["var"] = float(md["var"] * us)
        md["nugget"] = float(md["nugget"] * us)
    return c


def _fun(kind, dim, rng, scale=1.0):
    if kind in ("none", "zero"):
        return (None if kind == "none" else 0.0), (lambda *x: 0.0 * np.asarray(x[0], dtype=float))
    if kind == "const":
        v = round(float(rng.uniform(-1, 1)) * scale, 3)
        return v, (lambda *x: v + 0.0 * np.asarray(x[0], dtype=float))
    co = [round(float(v), 4) for v in rng.uniform(-0.2, 0.2, size=dim)]
    off = round(float(rng.uniform(-0.5, 0.5)) * scale, 3)

    def f(*x):
        return off + sum(ci * np.asarray(xi, dtype=float) for ci, xi in zip(co, x))

    return f, f


def _drift_functions(kind, dim):
    """Returns (argument for gstools, list of oracle callables)."""
    if kind in (None, "none"):
        return None, []
    if kind in ("linear", "int1"):
        fs = [(lambda i: (lambda *x: np.asarray(x[i], dtype=float)))(i) for i in range(dim)]
        return ("linear" if kind == "linear" else 1), fs
    if kind == "quadratic":
        fs = []
        for deg in (1, 2):
            for sel in itertools.combinations_with_replacement(range(dim), deg):
                fs.append((lambda s: (lambda *x: np.prod([np.asarray(x[i], dtype=float) for i in s], axis=0)))(sel))
        return "quadratic", fs
    if kind == "custom":
        fs = [lambda *x: np.sin(0.7 * np.asarray(x[0], dtype=float)), lambda *x: np.asarray(x[-1], dtype=float) ** 2]
        return fs, fs
    if kind == "custom_latlon":
        fs = [lambda *x: np.cos(np.radians(np.asarray(x[0], dtype=float)))]
        return fs, fs
    raise KeyError(kind)


def _positions(rng, c, n, scale):
    if c["geo"].startswith("latlon"):
        lat = rng.uniform(-70, 70, size=n)
        lon = rng.uniform(-170, 170, size=n)
        pos = [lat, lon]
        if c["geo"].endswith("temporal"):
            pos.append(rng.uniform(0, 3, size=n) * scale)
        return np.array(pos)
    fd = c["sdim"] + int(c["geo"] == "temporal")
    return common.draw_points(rng, fd, n, scale=scale / 3.0, layout=c["layout"])[:, :n]


def iso(c, pos):
    md = c["model"]
    pos = np.asarray(pos, dtype=float)
    if c["geo"].startswith("latlon"):
        xyz = orot.latlon_to_xyz(pos[0], pos[1], radius=md["geo_scale"])
        if c["geo"].endswith("temporal"):
            return np.vstack([xyz, pos[2:3] / md["anis"][-1]])
        return xyz
    dim = md["dim"]
    angles = md.get("angles", 0.0)
    if c["geo"] == "temporal" and dim > 1:
        # documented: no rotation between space and time
        na_sp = (dim - 1) * (dim - 2) // 2
        angles = list(np.atleast_1d(angles))[:na_sp] + [0.0] * (dim * (dim - 1) // 2 - na_sp)
    return orot.isometrize(dim, angles, md.get("anis", 1.0), pos.reshape(dim, -1))


class Built:
    pass


def build(c, n_targets=12, targets=None, structured=False):
    rng = np.random.default_rng(c["cseed"])
    md = dict(c["model"])
    b = Built()
    b.ok = True
    kw_model = {k: v for k, v in md.items() if k not in ("name", "opt", "dim")}
    kw_model.update(md.get("opt", {}))
    if c["geo"].startswith("latlon"):
        kw_model["latlon"] = True
    else:
        kw_model["dim"] = md["dim"]
    if c["geo"].endswith("temporal"):
        kw_model["temporal"] = True
        kw_model.pop("dim", None)
        if not c["geo"].startswith("latlon"):
            kw_model["spatial_dim"] = c["sdim"]
    with warnings.catch_warnings():
        warnings.simplefilter("ignore")
        model = getattr(gs, md["name"])(**kw_model)
    b.model = model
    fdim = model.field_dim
    scale = md["len_scale"] if not c["geo"].startswith("latlon") else 1.0
    n = c["n"]
    cp = _positions(rng, c, n, scale * 3.0)
    n = cp.shape[1]
    b.cond_pos = cp
    mean_arg, fmean = _fun(c["mean"], fdim, rng)
    trend_arg, ftrend = _fun(c["trend"], fdim, rng)
    b.fmean, b.ftrend = fmean, ftrend
    us = float(c.get("unit_scale", 1.0))
    z = rng.normal(0.0, 0.6, size=n) * math.sqrt(us)
    b.z = z
    with np.errstate(all="ignore"):
        cv = np.asarray(ftrend(*cp), dtype=float) + onorm.inverse(c["norm"], c["norm_p"], np.asarray(fmean(*cp), dtype=float) + z)
    b.cond_val = cv
    b.ok = bool(np.all(np.isfinite(cv)))
    if not b.ok:
        return b
    # the prepared data as the documented pipeline defines them (the round trip through a non-linear normalizer and a trend
    # is not exact in floating point; the oracle starts from the same conditioning values as the code)
    b.z_drawn = z
    with np.errstate(all="ignore"):
        b.z = onorm.forward(c["norm"], c["norm_p"], cv - np.asarray(ftrend(*cp), dtype=float)) - np.asarray(fmean(*cp), dtype=float)
    if not np.all(np.isfinite(b.z)):
        b.ok = False
        return b
    normalizer = None if c["norm"] == "Normalizer" else getattr(gs.normalizer, c["norm"])(**c["norm_p"])
    drift_arg, drift_fs = _drift_functions(c.get("drift"), fdim)
    b.drift_fs = drift_fs
    ned = int(c.get("ext_drift", 0) or 0)
    ext_c = rng.normal(size=(ned, n)) if ned else None
    b.ext_cond = ext_c
    if c["cond_err"] == "nugget":
        cerr_arg, cerr = "nugget", md["nugget"]
    elif c["cond_err"] == "scalar":
        v = round(float(rng.uniform(0.01, 0.3)), 3) * us
        cerr_arg, cerr = v, v
    else:
        v = np.round(rng.uniform(0.01, 0.3, size=n), 3) * us
        cerr_arg, cerr = v, v
    b.cond_err = cerr
    pinv = c["pinv"]
    pinv_arg = (lambda m: np.linalg.pinv(m)) if pinv == "callable" else pinv
    common_kw = dict(normalizer=normalizer, trend=trend_arg, exact=c["exact"], cond_err=cerr_arg, pseudo_inv=c["pseudo_inv"], pseudo_inv_type=pinv_arg)
    cp_arg, cv_arg = np.array(cp, dtype=np.double, order="C"), np.array(cv, dtype=np.double)
    ext_arg = ext_c  # (the object keeps a reference to the drift values at the conditions; a later set_condition() re-reads them)
    v = c["variant"]
    b.unbiased = v in ("Ordinary", "Universal", "ExtDrift") or (v == "Generic" and c.get("unbiased", True))
    with warnings.catch_warnings():
        warnings.simplefilter("ignore")
        if v == "Simple":
            k = gs.krige.Simple(model, cp_arg, cv_arg, mean=0.0 if mean_arg is None else mean_arg, **common_kw)
        elif v == "Ordinary":
            k = gs.krige.Ordinary(model, cp_arg, cv_arg, **common_kw)
        elif v == "Universal":
            k = gs.krige.Universal(model, cp_arg, cv_arg, drift_arg, **common_kw)
        elif v == "ExtDrift":
            k = gs.krige.ExtDrift(model, cp_arg, cv_arg, ext_arg, **common_kw)
        elif v == "Detrended":
            kw2 = {kk: vv for kk, vv in common_kw.items() if kk not in ("normalizer", "trend")}
            k = gs.krige.Detrended(model, cp_arg, cv_arg, trend_arg, **kw2)
        else:
            k = gs.krige.Krige(model, cp_arg, cv_arg, drift_functions=drift_arg, ext_drift=ext_arg, mean=mean_arg, unbiased=c.get("unbiased", True), **common_kw)
    b.krige = k
    # the arrays handed over are the caller's: what happens to them later is not the object's business
    cp_arg *= 1.7
    cp_arg += 3.0
    cv_arg[:] = -2.0 * cv_arg + 1.0
    # targets
    if targets is not None:
        tp = np.asarray(targets, dtype=float)
        b.pos_arg, b.mesh_type, b.shape = (tp if fdim > 1 else tp[0]), "unstructured", (tp.shape[1],)
    elif structured:
        axes = []
        for i in range(fdim):
            lo, hi = float(np.min(cp[i])) - 0.3 * scale, float(np.max(cp[i])) + 0.3 * scale
            if c["geo"].startswith("latlon") and i < 2:
                lo, hi = max(lo, -85 if i == 0 else -175), min(hi, 85 if i == 0 else 175)
            axes.append(np.sort(rng.uniform(lo, hi, size=int(rng.integers(2, 4)))))
        tp = np.array(np.meshgrid(*axes, indexing="ij")).reshape(fdim, -1)
        b.pos_arg, b.mesh_type, b.shape = (tuple(axes) if fdim > 1 else axes[0]), "structured", tuple(len(a) for a in axes)
    else:
        tp = _positions(rng, c, n_targets, scale * 4.0)
        b.pos_arg, b.mesh_type, b.shape = (tp if fdim > 1 else tp[0]), "unstructured", (tp.shape[1],)
    b.targets = tp
    m = tp.shape[1]
    b.ext_tgt = rng.normal(size=(ned, m)) if ned else None
    b.call_kw = {"ext_drift": b.ext_tgt} if ned else {}
    if ned and b.mesh_type == "structured":
        # a drift raster on the target grid, in whatever memory order the user's data come (C, Fortran / transposed files)
        lay = str(rng.choice(["flat", "grid-C", "grid-F"]))
        if lay != "flat":
            grid_drift = b.ext_tgt.reshape((ned,) + tuple(b.shape))
            b.call_kw = {"ext_drift": np.asfortranarray(grid_drift) if lay == "grid-F" else np.ascontiguousarray(grid_drift)}
        b.ext_layout = lay
    b.rng = rng
    return b


def oracle(c, b, targets=None, ext_tgt=None, z=None, only_mean=False):
    """O-KRIGE results for the built case: raw estimate, variance, post-processed estimate, condition number."""
    md = c["model"]
    model = b.model
    tp = b.targets if targets is None else np.asarray(targets, dtype=float)
    ic, it = iso(c, b.cond_pos), iso(c, tp)
    drift_c = [np.asarray(f(*b.cond_pos), dtype=float) * np.ones(b.cond_pos.shape[1]) for f in b.drift_fs]
    drift_t = [np.asarray(f(*tp), dtype=float) * np.ones(tp.shape[1]) for f in b.drift_fs]
    et = b.ext_tgt if ext_tgt is None else ext_tgt
    if b.ext_cond is not None:
        drift_c += [row for row in b.ext_cond]
        drift_t += [row for row in et]
    sill = md["var"] + md["nugget"]
    est, var, rawvar, cond = okrige.krige(model.covariance, ic, b.z if z is None else z, it, sill, md["var"], unbiased=b.unbiased,
                                          drift_cond=drift_c or None, drift_tgt=drift_t or None, cond_err=b.cond_err,
                                          exact=c["exact"], only_mean=only_mean, pseudo=True)
    with np.errstate(all="ignore"):
        post = np.asarray(b.ftrend(*tp), dtype=float) + onorm.inverse(c["norm"], c["norm_p"], np.asarray(b.fmean(*tp), dtype=float) + est)
    return est, var, post, cond, rawvar


def amplification(c, b):
    """Sum of the absolute contributions to estimate and variance (sum |z_i w_i|, sum |rhs_i w_i|): the scale on which the
    rounding of the weights (eps * cond) acts; Lagrange multipliers of drift terms can be orders of magnitude above the sill."""
    md = c["model"]
    ic, it = iso(c, b.cond_pos), iso(c, b.targets)
    drift_c = [np.asarray(f(*b.cond_pos), dtype=float) * np.ones(b.cond_pos.shape[1]) for f in b.drift_fs]
    drift_t = [np.asarray(f(*b.targets), dtype=float) * np.ones(b.targets.shape[1]) for f in b.drift_fs]
    if b.ext_cond is not None:
        drift_c += [row for row in b.ext_cond]
        drift_t += [row for row in b.ext_tgt]
    sill = md["var"] + md["nugget"]
    mat = okrige.system(b.model.covariance, ic, sill, md["var"], unbiased=b.unbiased, drift_cond=drift_c or None, cond_err=b.cond_err)
    rh = okrige.rhs(b.model.covariance, ic, it, sill, md["var"], unbiased=b.unbiased, drift_tgt=drift_t or None, exact=c["exact"])
    sol = np.linalg.pinv(mat, rcond=1e-15) @ rh
    zp = np.concatenate([b.z, np.zeros(mat.shape[0] - len(b.z))])
    return float(np.max(np.sum(np.abs(zp[:, None] * sol), axis=0))), float(np.max(np.sum(np.abs(rh * sol), axis=0)))


def refresh_with_changed_model(c, b, rng):
    """In-place change of the model of a built Krige followed by the documented refresh `set_condition()`.
    Returns the case description of the changed setup (for the oracle)."""
    md = dict(c["model"])
    model = b.model
    dim = md["dim"]
    with warnings.catch_warnings():
        warnings.simplefilter("ignore")
        if not c["geo"].startswith("latlon") and dim > 1:
            md["anis"] = [round(float(v), 4) for v in np.exp(rng.uniform(-1.2, 1.2, size=dim - 1))]
            md["angles"] = [round(float(v), 4) for v in rng.uniform(-3, 3, size=dim * (dim - 1) // 2)]
            model.anis = md["anis"]
            model.angles = md["angles"]
        elif c["geo"] == "latlon_temporal":
            md["anis"] = [round(float(np.exp(rng.uniform(-1, 1))), 3)]
            model.anis = [1.0, 1.0, md["anis"][0]]
        md["len_scale"] = round(md["len_scale"] * float(rng.uniform(0.6, 1.6)), 4)
        model.len_scale = md["len_scale"]
        md["var"] = round(float(rng.uniform(0.5, 2.5)), 3)
        model.var = md["var"]
        b.krige.set_condition()
    c2 = dict(c, model=md)
    if c["cond_err"] == "nugget":
        b.cond_err = md["nugget"]
    return c2
