#!/venv/bin/python
"""Regenerates the seeded-change table in DESIGN.md from seeded/*/meta.json."""
import glob, json, os, re
root = os.path.dirname(os.path.dirname(os.path.abspath(__file__)))
rows = ["| Seeded change | Breaks | What it is | Verdicts of the checks run against it |", "|---|---|---|---|"]
for d in sorted(glob.glob(os.path.join(root, "seeded", "*"))):
    mp = os.path.join(d, "meta.json")
    if not os.path.exists(mp):
        continue
    m = json.load(open(mp))
    what = m.get("change") or ""
    if not what:
        try:
            lines = [l.strip("# -*").strip() for l in open(os.path.join(d, "notes.md")).read().splitlines() if l.strip()]
            what = lines[0]
        except OSError:
            what = ""
    what = re.sub(r"^C\d+\s*/\s*m\d+\s*[-–:]\s*", "", what)[:110].replace("|", "/")
    verd = []
    for dd in m.get("detected_by", []):
        if isinstance(dd, dict):
            mech = ""
            if dd.get("mechanisms"):
                try:
                    mm = json.loads(dd["mechanisms"][0])
                    mech = " (" + str(mm.get("check", "")) + ": " + str(mm.get("what", mm.get("kind", "")))[:60] + ")"
                except Exception:
                    mech = ""
            verd.append(f"{dd['check']} {dd['tier']}: **{dd['verdict']}**{mech}".replace("|", "/"))
    rows.append(f"| {m['id']} | {m['breaks_property']} | {what} | {'; '.join(verd) or 'not yet evaluated'} |")
p = os.path.join(root, "DESIGN.md")
s = open(p).read()
a, b = s.index("<!-- MUTANT-TABLE-BEGIN -->"), s.index("<!-- MUTANT-TABLE-END -->")
s = s[:a] + "<!-- MUTANT-TABLE-BEGIN -->\n" + "\n".join(rows) + "\n" + s[b:]
open(p, "w").write(s)
print(len(rows) - 2, "rows")
