#!/bin/bash
# usage: mkworktree.sh <dir>   – scratch git worktree of /repo HEAD incl. the prebuilt (git-ignored) kernels
set -e
D="$1"
git -C /repo worktree add --detach "$D" HEAD >/dev/null 2>&1
for f in field/summator krige/krigesum variogram/estimator; do
  cp /repo/src/gstools/$f.cpython-312-x86_64-linux-gnu.so "$D/src/gstools/$f.cpython-312-x86_64-linux-gnu.so"
  for ext in c cpp; do [ -f /repo/src/gstools/$f.$ext ] && cp /repo/src/gstools/$f.$ext "$D/src/gstools/$f.$ext"; done
done
cp /repo/src/gstools/_version.py "$D/src/gstools/_version.py" 2>/dev/null || true
echo "$D"
