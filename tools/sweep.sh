#!/bin/bash
# usage: sweep.sh <tier> "<seeds>" [props...]  -> one line per run; non-OK runs print their verdict lines
TIER=$1; SEEDS=$2; shift 2
PROPS="$@"; [ -z "$PROPS" ] && PROPS=$(for i in $(seq -w 1 20); do echo C$i; done)
cd /verif
for s in $SEEDS; do for p in $PROPS; do
  out=$(VERIF_SEED=$s GSVERIF_EVIDENCE_DIR=/verif/.build/sweep_ev ./check $p $TIER 2>&1); rc=$?
  echo "$p $TIER seed=$s rc=$rc :: $(echo "$out" | tail -1 | cut -c1-160)"
  if [ $rc -ne 0 ]; then echo "$out" | grep -E "^(VIOLATION|INCONCLUSIVE|  mech=)" | head -8 | cut -c1-700; fi
done; done
