#!/bin/bash
# usage: trial.sh [-R] <patchfile|commit> <tier> <prop> [<prop>...]
# Runs checks against a scratch copy of /repo (outside /repo and /verif) with a patch applied
# (-R: reverse-apply, e.g. to undo a fix commit). Prints each check's verdict lines; removes the copy.
REV=""
if [ "$1" = "-R" ]; then REV="-R"; shift; fi
P="$(readlink -f "$1" 2>/dev/null || echo "$1")"; [ -e "$P" ] || P="$1"; TIER="$2"; shift 2
T=$(mktemp -d /tmp/trial.XXXXXX)
mkdir -p "$T/repo"
rsync -a --exclude .git /repo/ "$T/repo/"
if [ -f "$P" ]; then PATCH="$P"; else git -C /repo show "$P" > "$T/p.diff"; PATCH="$T/p.diff"; fi
( cd "$T/repo" && patch -p1 $REV -s < "$PATCH" ) || { echo "PATCH FAILED"; rm -rf "$T"; exit 3; }
for prop in "$@"; do
  out=$(cd /verif && GSVERIF_SRC="$T/repo/src" GSVERIF_EVIDENCE_DIR="$T/ev" ./check "$prop" "$TIER" 2>&1)
  rc=$?
  echo "== $prop rc=$rc"; echo "$out" | grep -E "^(VIOLATION|KNOWN-FINDING|INCONCLUSIVE|OK|C[0-9]+ )" | head -${TRIAL_LINES:-6}
  echo "$out" | grep -E "^  mech=" | head -${TRIAL_LINES:-6}
done
rm -rf "$T"
