#!/bin/bash
# usage: confirm_mutant.sh <mutant-dir with patch.diff demo.py notes.md> <seeded-id> <property>
# Confirms in a scratch worktree of /repo HEAD: patch applies, suite green with patch, demo fails with / passes without.
# On success copies the mutant to /verif/seeded/<seeded-id>/ with meta.json. Removes the worktree.
M="$1"; ID="$2"; PROP="$3"
W=$(mktemp -d /tmp/confirm.XXXXXX); rmdir "$W"
/verif/tools/mkworktree.sh "$W" >/dev/null || exit 3
res() { echo "$ID: $1"; git -C /repo worktree remove --force "$W" >/dev/null 2>&1; rm -rf "$W"; exit $2; }
cd "$W"
PYTHONPATH="$W/src" timeout 900 /venv/bin/python "$M/demo.py" >"$W/.demo_clean.log" 2>&1; rc_clean=$?
git apply "$M/patch.diff" 2>"$W/.apply.log" || res "PATCH-DOES-NOT-APPLY $(head -c 300 $W/.apply.log)" 4
PYTHONPATH="$W/src" timeout 900 /venv/bin/python "$M/demo.py" >"$W/.demo_mut.log" 2>&1; rc_mut=$?
PYTHONPATH="$W/src" timeout 1500 /venv/bin/python -m pytest -q -p no:cacheprovider -n 6 --timeout=900 tests >"$W/.tests.log" 2>&1; rc_tests=$?
summary=$(tail -1 "$W/.tests.log")
if [ $rc_clean -eq 0 ] && [ $rc_mut -ne 0 ] && [ $rc_tests -eq 0 ]; then
  mkdir -p "/verif/seeded/$ID"
  cp "$M/patch.diff" "$M/demo.py" "/verif/seeded/$ID/"
  [ -f "$M/notes.md" ] && cp "$M/notes.md" "/verif/seeded/$ID/"
  /venv/bin/python - "$ID" "$PROP" "$summary" "$(tail -3 $W/.demo_mut.log | tr '\n' ' ' | head -c 400)" <<'PY'
import json,sys,subprocess
i,prop,summary,demo=sys.argv[1:5]
head=subprocess.run(["git","-C","/repo","log","--format=%h","-1"],capture_output=True,text=True).stdout.strip()
notes=""
try: notes=open(f"/verif/seeded/{i}/notes.md").read()
except OSError: pass
json.dump({"id":i,"breaks_property":prop,"origin":"independent sub-agent given only the property text and a scratch worktree",
  "needs_to_manifest":notes[:1500],"confirmed_on_repo_head":head,
  "what_was_run":["demo.py on clean worktree: exit 0","git apply patch.diff","demo.py with patch: exit != 0 ("+demo+")",
                  "pytest -q -n 6 tests with patch: "+summary],"detected_by":[]},open(f"/verif/seeded/{i}/meta.json","w"),indent=1)
PY
  res "CONFIRMED (clean=$rc_clean mutated=$rc_mut tests: $summary)" 0
else
  res "REJECTED clean=$rc_clean mutated=$rc_mut tests_rc=$rc_tests ($summary)" 5
fi
