#!/bin/bash
# usage: eval_seeded.sh <tier> [<seeded-id>...]   (default: all)
# Runs every seeded change against the check of the property it breaks (plus extra properties listed in seeded/<id>/also.txt),
# in a scratch copy of /repo, and records the verdict lines in seeded/<id>/meta.json (detected_by).
TIER="${1:-quick}"; shift
cd /verif
IDS="$@"; [ -z "$IDS" ] && IDS=$(ls seeded)
for id in $IDS; do
  d=seeded/$id; [ -f $d/patch.diff ] || continue
  prop=$(/venv/bin/python -c "import json;print(json.load(open('$d/meta.json'))['breaks_property'])")
  props="$prop"; [ -f $d/also.txt ] && props="$props $(cat $d/also.txt)"
  out=$(TRIAL_LINES=3 tools/trial.sh $d/patch.diff $TIER $props 2>&1)
  echo "#### $id"; echo "$out"
  printf '%s\n' "$out" > /verif/.build/eval_last_out.txt
  /venv/bin/python - "$d/meta.json" "$TIER" <<'PY'
import json,sys,re
meta=json.load(open(sys.argv[1])); tier=sys.argv[2]
out=open('/verif/.build/eval_last_out.txt', errors='replace').read()
det=[]
cur=None
for ln in out.splitlines():
    m=re.match(r"== (C\d+) rc=(\d+)",ln)
    if m:
        cur={"check":m.group(1),"tier":tier,"exit":int(m.group(2)),"verdict":{"0":"not detected","1":"VIOLATION","2":"inconclusive"}.get(m.group(2),"?"),"mechanisms":[]}
        det.append(cur)
    m=re.match(r"\s+mech=(\{.*?\}) ::",ln)
    if m and cur is not None and len(cur["mechanisms"])<3:
        cur["mechanisms"].append(m.group(1)[:300])
old=[d for d in meta.get("detected_by",[]) if isinstance(d,dict) and not any(d.get("check")==n["check"] and d.get("tier")==n["tier"] for n in det)]
meta["detected_by"]=old+det
json.dump(meta,open(sys.argv[1],"w"),indent=1)
PY
done
